#!/usr/bin/env python3
"""Confirms the seeded changes delivered by the independent sub-agents (/tmp/wt/CNN.out) in a scratch
worktree: the patch applies, the code builds, the repository's own tests pass with it, the
demonstration fails with the patch and passes without it. Confirmed changes are copied to
/verif/seeded/<ID>-<a|b>/ (patch.diff, demo, notes excerpt, meta.json).
usage: seedverify.py [ID ...]"""
import json, os, re, shutil, subprocess, sys

WT = '/tmp/wt/verify'
ENV = dict(os.environ, GOPROXY='off', GOSUMDB='off', GOTOOLCHAIN='local')
ENV.pop('GOFLAGS', None)
PKGDIR = {'lucene': '.', 'lucene_test': '.', 'lex': 'internal/lex', 'lex_test': 'internal/lex', 'driver': 'pkg/driver', 'driver_test': 'pkg/driver',
          'expr': 'pkg/lucene/expr', 'expr_test': 'pkg/lucene/expr', 'reduce': 'pkg/lucene/reduce', 'reduce_test': 'pkg/lucene/reduce', 'fuzz': 'fuzz', 'fuzz_test': 'fuzz'}


def sh(cmd, cwd=None, timeout=1200):
    return subprocess.run(cmd, shell=True, cwd=cwd, env=ENV, capture_output=True, text=True, errors="replace", timeout=timeout)


def reset():
    if not os.path.isdir(WT):
        sh('git -C /repo worktree add -q --detach %s HEAD' % WT)
    head = sh('git -C /repo rev-parse HEAD').stdout.strip()
    sh('git checkout -q --detach %s && git reset -q --hard %s && git clean -fdq' % (head, head), cwd=WT)


def tests(cwd_rel=''):
    out = []
    for d in ('', 'fuzz'):
        r = sh('go test -vet=off -count=1 ./... 2>&1', cwd=os.path.join(WT, d))
        out.append((d or '.', r.returncode, r.stdout[-400:]))
    return out


def main():
    args = sys.argv[1:]
    base, vmap = '/tmp/wt', {'a': 'a', 'b': 'b'}
    if args and args[0] == '--round2':
        base, vmap, args = '/tmp/wt2', {'a': 'c', 'b': 'd'}, args[1:]
    if args and args[0] == '--round3':
        base, vmap, args = '/tmp/wt4', {'a': 'e', 'b': 'f'}, args[1:]
    if args and args[0] == '--round4':
        base, vmap, args = '/tmp/wt5', {'a': 'g', 'b': 'h'}, args[1:]
    if args and args[0] == '--round6':
        base, vmap, args = '/tmp/wt7', {'a': 'k', 'b': 'l'}, args[1:]
    if args and args[0] == '--round5':
        base, vmap, args = '/tmp/wt6', {'a': 'i', 'b': 'j'}, args[1:]
    ids = args or ['C%02d' % i for i in range(1, 17)]
    for pid in ids:
        for v0 in ('a', 'b'):
            v = vmap[v0]
            src = '%s/%s.out' % (base, pid)
            patch = os.path.join(src, v0 + '.diff')
            demo = os.path.join(src, 'demo_%s_%s_test.go' % (pid, v0))
            if not (os.path.exists(patch) and os.path.exists(demo)):
                print(pid, v, 'MISSING deliverable'); continue
            reset()
            a = sh('git apply %s' % patch, cwd=WT)
            if a.returncode != 0:
                print(pid, v, 'PATCH DOES NOT APPLY', a.stderr[:200]); continue
            b = sh('go build ./... 2>&1', cwd=WT)
            if b.returncode != 0:
                print(pid, v, 'DOES NOT BUILD', b.stdout[-300:]); continue
            t = tests()
            if any(rc != 0 for _, rc, _ in t):
                print(pid, v, 'REPOSITORY TESTS FAIL WITH THE CHANGE', [(d, rc) for d, rc, _ in t]); continue
            text = open(demo).read()
            m = re.search(r'^package\s+(\w+)', text, re.M)
            pkg = m.group(1) if m else 'lucene'
            d = PKGDIR.get(pkg, '.')
            hint = re.search(r'(?i)(?:place[d]? in|directory)[^\n]*?[`"\s:]((?:\./)?[\w/\.]+/?)[`"\s]', text.split('package')[0])
            dst = os.path.join(WT, d, os.path.basename(demo))
            shutil.copy(demo, dst)
            names = '|'.join(re.findall(r'^func (Test\w+)\(', text, re.M))
            race = ' -race' if 'race' in open(os.path.join(src, 'notes.md')).read().lower() and pid == 'C14' and v == 'a' else ''
            cmd = 'go test -vet=off -count=1%s -run "^(%s)$" . 2>&1' % (race, names)
            with_patch = sh(cmd, cwd=os.path.join(WT, d))
            sh('git apply -R %s' % patch, cwd=WT)
            without = sh(cmd, cwd=os.path.join(WT, d))
            ok = with_patch.returncode != 0 and without.returncode == 0
            print(pid, v, 'CONFIRMED' if ok else 'NOT CONFIRMED', 'demo with patch rc=%d, without rc=%d' % (with_patch.returncode, without.returncode), 'dir=' + d, 'tests=' + names[:80])
            if not ok:
                print('   with:', with_patch.stdout[-300:].replace('\n', ' | '))
                print('   without:', without.stdout[-300:].replace('\n', ' | '))
                continue
            out = '/verif/seeded/%s-%s' % (pid, v)
            os.makedirs(out, exist_ok=True)
            shutil.copy(patch, os.path.join(out, 'patch.diff'))
            shutil.copy(demo, os.path.join(out, os.path.basename(demo)))
            notes = open(os.path.join(src, 'notes.md')).read()
            open(os.path.join(out, 'agent_notes.md'), 'w').write(notes)
            meta = {"property": pid, "variant": v, "origin": "independent sub-agent given only the property text and a scratch worktree",
                    "demo_file": os.path.basename(demo), "demo_dir": d, "demo_tests": names,
                    "confirmed": {"patch_applies": True, "builds": True, "repository_tests_pass_with_change": True,
                                  "demo_fails_with_change": True, "demo_passes_without_change": True,
                                  "commands": ["git apply patch.diff", "go test -vet=off -count=1 ./... (root and fuzz)", cmd]},
                    "base_commit": sh('git -C /repo rev-parse --short HEAD').stdout.strip()}
            old = os.path.join(out, 'meta.json')
            if os.path.exists(old):
                o = json.load(open(old))
                for k in ('needs', 'what', 'results'):
                    if k in o:
                        meta[k] = o[k]
            json.dump(meta, open(old, 'w'), indent=1)
    reset()


if __name__ == '__main__':
    main()
