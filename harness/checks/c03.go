//go:build !instr

package checks

import (
	"fmt"
	"regexp"
	"strings"

	lucene "github.com/grindlemire/go-lucene"
	"github.com/grindlemire/go-lucene/verif/core"
	"github.com/grindlemire/go-lucene/verif/qast"
	"github.com/grindlemire/go-lucene/verif/sqlref"
)

// C03 — inline SQL selects exactly the rows the query means.
//
// Case kinds:
//   "leaf": In = text of one fielded leaf, Tree = the leaf. ToPostgres must succeed, PostgreSQL's
//       grammar must read it as a confined predicate, and on every probe row the SQL predicate
//       and the leaf's Lucene meaning agree.
//   "tree": In = fully parenthesised text of a tree over the filterable fragment, Tree = the tree.
//       The SQL of the compound must be, on every probe row, the same Boolean combination
//       (+x = x, -x = NOT x) of its leaves' own SQL as the query's structure. (The statement's
//       "equivalently" clause; it keeps a leaf-level defect from being reported once per
//       compound that contains the leaf.)

var fieldTypes = map[string]string{"n": "num", "m": "num", "s": "str", "t": "str"}

var boolUnaries = []qast.UForm{{Op: qast.ONot}, {Op: qast.OMust}, {Op: qast.OMustN}}

// numReps: numeric spellings that a renderer or literal parser may treat specially (sign, leading
// zeros, 2^53 +- 1 where float64 stops being exact, the int64 extremes; short, long and tiny
// decimals). Every one of them is used in every numeric value slot.
var intReps = []string{"5", "-5", "0", "010", "-007", "9007199254740993", "-9007199254740993", "9223372036854775807", "-9223372036854775808"}
var floatReps = []string{"0.5", "1.25", "0.001", "-2.75", "0.0078125", "0.0000001", "12345678.5", "123456.789012345"}

func leavesC03() []*qast.Node {
	L := qast.Lf
	var ls []*qast.Node
	eq := func(f string, v qast.Value) { ls = append(ls, L(qast.Leaf{Kind: qast.LEq, Field: f, Val: v})) }
	for _, v := range intReps {
		eq("n", qast.I(v))
	}
	for _, v := range floatReps {
		eq("n", qast.F(v))
	}
	eq("s", qast.W("word"))
	eq("s", qast.Q("q r"))
	eq("s", qast.Q("it's"))
	eq("s", qast.Q("a,b"))
	eq("s", qast.Q("x_y"))
	eq("s", qast.Q(""))
	for _, k := range []string{qast.LGt, qast.LGe, qast.LLt, qast.LLe} {
		for _, v := range intReps {
			ls = append(ls, L(qast.Leaf{Kind: k, Field: "n", Val: qast.I(v)}))
		}
		ls = append(ls, L(qast.Leaf{Kind: k, Field: "n", Val: qast.F("1.25")}))
		ls = append(ls, L(qast.Leaf{Kind: k, Field: "n", Val: qast.F("0.0078125")}))
		ls = append(ls, L(qast.Leaf{Kind: k, Field: "s", Val: qast.W("m")}))
		ls = append(ls, L(qast.Leaf{Kind: k, Field: "s", Val: qast.Q("m n")}))
	}
	rng := func(f string, lo, hi qast.Value) {
		for _, incl := range []bool{true, false} {
			ls = append(ls, L(qast.Leaf{Kind: qast.LRange, Field: f, Lo: lo, Hi: hi, Incl: incl}))
		}
	}
	rng("n", qast.I("1"), qast.I("5"))
	rng("n", qast.I("-5"), qast.I("5"))
	rng("n", qast.I("007"), qast.I("010"))
	rng("n", qast.I("5"), qast.I("1"))       // reversed: selects nothing
	rng("n", qast.F("2.5"), qast.F("0.5")) // reversed: selects nothing
	rng("n", qast.Star, qast.I("5"))
	rng("n", qast.I("1"), qast.Star)
	// every integer representative as lower and as upper bound, closed and open-ended
	for _, v := range intReps[3:] {
		rng("n", qast.I(v), qast.Star)
		rng("n", qast.Star, qast.I(v))
		rng("n", qast.I(v), qast.I("9223372036854775807"))
		rng("n", qast.I("-9223372036854775808"), qast.I(v))
	}
	rng("n", qast.F("0.5"), qast.F("1.25"))
	rng("n", qast.F("0.001"), qast.F("0.002"))
	rng("n", qast.Star, qast.F("1.25"))
	rng("n", qast.F("0.5"), qast.Star)
	rng("n", qast.Star, qast.Star)
	rng("s", qast.W("b"), qast.W("d"))
	rng("s", qast.Star, qast.W("d"))
	rng("s", qast.W("b"), qast.Star)
	rng("s", qast.Q("a b"), qast.Q("c d"))
	rng("s", qast.Q("a,b"), qast.W("c"))
	ls = append(ls, L(qast.Leaf{Kind: qast.LList, Field: "n", List: []qast.Value{qast.I("1"), qast.I("2")}}))
	ls = append(ls, L(qast.Leaf{Kind: qast.LList, Field: "n", List: []qast.Value{qast.I("1"), qast.I("-2"), qast.I("3")}}))
	ls = append(ls, L(qast.Leaf{Kind: qast.LList, Field: "n", List: []qast.Value{qast.F("0.5"), qast.F("1.25")}}))
	ls = append(ls, L(qast.Leaf{Kind: qast.LList, Field: "n", List: []qast.Value{qast.F("0.0078125"), qast.I("7")}}))
	ls = append(ls, L(qast.Leaf{Kind: qast.LList, Field: "n", List: []qast.Value{qast.I("1"), qast.I("2"), qast.I("3"), qast.I("4"), qast.I("5")}}))
	ls = append(ls, L(qast.Leaf{Kind: qast.LList, Field: "n", List: []qast.Value{qast.I("010"), qast.I("9007199254740993"), qast.I("-9223372036854775808"), qast.I("9223372036854775807")}}))
	ls = append(ls, L(qast.Leaf{Kind: qast.LList, Field: "s", List: []qast.Value{qast.W("p"), qast.W("q"), qast.W("r"), qast.Q("s t")}}))
	ls = append(ls, L(qast.Leaf{Kind: qast.LList, Field: "s", List: []qast.Value{qast.W("x"), qast.W("y")}}))
	ls = append(ls, L(qast.Leaf{Kind: qast.LList, Field: "s", List: []qast.Value{qast.Q("a b"), qast.Q("it's"), qast.W("z")}}))
	for _, p := range []string{"w*", "*w", "w?x", "*", "?", "a*b*c", "x_y*", "?*"} {
		eq("s", qast.Wi(p))
	}
	// escapes next to wild cards: the escaped character is literal, the wild card stays one
	for _, p := range []string{`foo\ *`, `a\*b*`, `\?x?`, `x\\*`, `*\ \ *`} {
		eq("s", qast.Wi(p))
	}
	for _, p := range []string{`x\ \*`, `a\?`} { // (a lone escaped * is the string "*": known findings KF-C04-2 / KF-C08-1)
		eq("s", qast.W(p))
	}
	// quoted text that spells a number is a string wherever it stands
	for _, v := range []string{"5", "-5", "1.5", "10", "9"} {
		eq("s", qast.Q(v))
	}
	for _, k := range []string{qast.LGt, qast.LLe} {
		ls = append(ls, L(qast.Leaf{Kind: k, Field: "s", Val: qast.Q("10")}))
	}
	// (inclusive and closed only: exclusive / open-ended string ranges are known findings KF-C03-2 / -3 whatever the bounds spell)
	for _, b := range [][2]string{{"10", "9"}, {"1", "5"}, {"10000", "19999"}} {
		ls = append(ls, L(qast.Leaf{Kind: qast.LRange, Field: "s", Lo: qast.Q(b[0]), Hi: qast.Q(b[1]), Incl: true}))
	}
	ls = append(ls, L(qast.Leaf{Kind: qast.LList, Field: "s", List: []qast.Value{qast.Q("1"), qast.Q("2"), qast.Q("10")}}))
	return ls
}

// a smaller mix for deeper trees: one of each renderer branch, two fields
func leavesC03Small(k int) []*qast.Node {
	L := qast.Lf
	all := []*qast.Node{
		L(qast.Leaf{Kind: qast.LEq, Field: "n", Val: qast.I("5")}),
		L(qast.Leaf{Kind: qast.LEq, Field: "s", Val: qast.Q("q r")}),
		L(qast.Leaf{Kind: qast.LRange, Field: "n", Lo: qast.I("1"), Hi: qast.I("5"), Incl: true}),
		L(qast.Leaf{Kind: qast.LEq, Field: "s", Val: qast.Wi("w*")}),
		L(qast.Leaf{Kind: qast.LList, Field: "n", List: []qast.Value{qast.I("1"), qast.I("2")}}),
		L(qast.Leaf{Kind: qast.LGe, Field: "m", Val: qast.I("3")}),
	}
	return all[:k]
}

func init() {
	treeSetsExtra["c03l"] = leavesC03
	treeSetsExtra["c03s1"] = func() []*qast.Node { return qast.AllTreesU(leavesC03Small(6), boolUnaries, 1) }
	treeSetsExtra["c03s0"] = func() []*qast.Node { return leavesC03Small(6) }
	treeSetsExtra["c03t2"] = func() []*qast.Node { return qast.AllTreesU(leavesC03Small(2), boolUnaries, 2) }
	treeSetsExtra["c03t0"] = func() []*qast.Node { return leavesC03Small(2) }
	core.Register(&core.Check{
		ID:    "C03",
		Title: "Inline SQL selects exactly the rows the query means",
		Units: func(tier string) []core.Unit {
			var us []core.Unit
			add := func(names []string, w int) {
				for _, x := range names {
					us = append(us, core.Unit{Name: x, Weight: w})
				}
			}
			us = append(us, core.Unit{Name: "leaves", Weight: 1}, core.Unit{Name: "ugroup", Weight: 1})
			add(qast.TreeUnits("sem|c03l|c03l", len(treeSet("c03l")), 16), 3)
			add(qast.TreeUnits("sem|c03s0|c03s1", len(treeSet("c03s1")), 16), 3)
			if tier == "thorough" {
				add(qast.TreeUnits("sem|c03t0|c03t2", len(treeSet("c03t2")), 64), 4)
			}
			return us
		},
		Run: func(w *core.Worker, tier, unit string) {
			if unit == "leaves" {
				for _, l := range treeSet("c03l") {
					w.Do(core.Case{Kind: "leaf", In: core.BStr(qast.Text(l, nil)), Tree: qast.Encode(l)})
				}
				return
			}
			if unit == "ugroup" {
				// depth 3 where it matters for parenthesisation: a prefix operator over a binary group as an
				// operand of the other (and the same) connective, on either side, also twice prefixed
				ls := leavesC03Small(3)
				for _, u := range boolUnaries {
					for _, u2 := range append([]qast.UForm{{}}, boolUnaries...) {
						for _, gop := range qast.BinaryOps {
							for _, op := range qast.BinaryOps {
								for _, swap := range []bool{false, true} {
									g := qast.Un(u.Op, qast.Bin(gop, ls[1], ls[2]))
									if u2.Op != "" {
										g = qast.Un(u2.Op, g)
									}
									t := qast.Bin(op, ls[0], g)
									if swap {
										t = qast.Bin(op, g, ls[0])
									}
									w.Do(core.Case{Kind: "tree", In: core.BStr(qast.Text(t, &qast.PrintOpts{Full: true})), Tree: qast.Encode(t)})
									w.Do(core.Case{Kind: "tree", In: core.BStr(qast.Text(t, nil)), Tree: qast.Encode(t)})
								}
							}
						}
					}
				}
				return
			}
			p := strings.Split(unit, "|")
			leaves, sub := treeSet(p[1]), treeSet(p[2])
			qast.EnumTreeUnitU("t|"+strings.Join(p[3:], "|"), leaves, sub, boolUnaries, func(t *qast.Node) {
				if t.Op == qast.OLeaf {
					return
				}
				w.Do(core.Case{Kind: "tree", In: core.BStr(qast.Text(t, &qast.PrintOpts{Full: true})), Tree: qast.Encode(t)})
			})
		},
		Eval:   c03Eval,
		Shrink: c03Shrink,
		Rule: "every leaf of the filterable fragment (equality on ints incl. int64 extremes, decimals, words, phrases with ' , _ and empty; < <= > >= on int/float/word/phrase; ranges over every bound kind x inclusivity incl. open and doubly open; value lists; patterns) against its Lucene meaning; " +
			"every depth-1 tree over all leaves and every depth-2 tree over 6 leaves (thorough: depth 3 over 2 leaves) with NOT + - AND OR, fully parenthesised, against the Boolean combination of its leaves' own SQL; " +
			"all on probe rows hitting every region and boundary cut out by the constants; non-trivial = rendered and read by PostgreSQL's grammar; distinct = distinct SQL texts; states count probe-row evaluations",
		Assumptions: []string{
			"PostgreSQL's grammar (pg_query_go, PostgreSQL 15) reads the text; evaluation is the harness' first-order evaluator with exact decimal arithmetic and code-point string order on both sides",
			"rows assign a non-NULL value of the matching type to each field; regexps and patterns with SQL regular-expression metacharacters are outside the fragment",
		},
		Bounds: func(tier string) map[string]any {
			if tier == "thorough" {
				return map[string]any{"leaves": len(leavesC03()), "depth1_over": "all leaves", "depth2_over": 6, "depth3_over": 2}
			}
			return map[string]any{"leaves": len(leavesC03()), "depth1_over": "all leaves", "depth2_over": 6}
		},
		Deadline: func(tier string) int {
			if tier == "thorough" {
				return 1000
			}
			return 300
		},
	})
}

func toPostgres(in string, df core.BStr) (s string, err error, pi *core.PanicInfo) {
	pi = core.Safe(func() {
		if df != "" {
			s, err = lucene.ToPostgres(in, lucene.WithDefaultField(string(df)))
		} else {
			s, err = lucene.ToPostgres(in)
		}
	})
	return
}

// leafClass abstracts a leaf for the observation class (so that minimisation stays on the form).
func leafClass(l *qast.Leaf) string {
	k := func(v qast.Value) string {
		if v.Kind == qast.VWord || v.Kind == qast.VQuoted {
			return "str"
		}
		return v.Kind
	}
	switch l.Kind {
	case qast.LRange:
		b := "excl"
		if l.Incl {
			b = "incl"
		}
		return fmt.Sprintf("range-%s(%s,%s)", b, k(l.Lo), k(l.Hi))
	case qast.LList:
		return "list(" + k(l.List[0]) + ")"
	}
	return l.Kind + "(" + k(l.Val) + ")"
}

func c03Eval(c core.Case) (res core.Result) {
	t, err := qast.Decode(c.Tree)
	if err != nil {
		panic("C03: bad tree: " + err.Error())
	}
	add := func(clause, class, obs, exp string) {
		res.Obs = append(res.Obs, core.Obs{Clause: clause, Class: class, Observed: obs, Expected: exp})
	}
	sql, rerr, pi := toPostgres(string(c.In), "")
	if pi != nil {
		res.Tags = append(res.Tags, "skipped_upstream_panic")
		return
	}
	if c.Kind == "leaf" {
		l := t.Leaf
		cls := leafClass(l)
		if rerr != nil {
			add("leaf", cls+" render-error", rerr.Error(), "ToPostgres succeeds on the filterable fragment")
			return
		}
		rd, err := sqlref.ReadFilter(sql)
		if err != nil {
			res.Tags = append(res.Tags, "skipped_upstream_unconfined") // C02 owns confinement
			return
		}
		res.Nontrivial = true
		res.Hash = core.Hash64(sql)
		// the observation class carries the shape of the SQL, so that a ledgered leaf rendered in
		// a *different* wrong way is a different signature
		cls += " => " + predShape(rd.Pred)
		pr := sqlref.NewProbe()
		pr.AddLeaf(l)
		for _, row := range pr.Rows(fieldTypes, 4000) {
			res.Extra++
			want, err := sqlref.LeafMeaning(l, row)
			if err != nil {
				res.Tags = append(res.Tags, "outside_fragment")
				continue
			}
			env := &sqlref.Env{Row: row}
			got, err := env.Eval(rd.Pred)
			if err != nil {
				if _, ok := err.(*sqlref.Outside); ok {
					// the SQL compares a column with a constant of the other type: it cannot mean the leaf
					add("leaf", cls+" type-mismatch", fmt.Sprintf("SQL %s on row %s: %v", sql, sqlref.RowString(row), err), "a predicate over values of the leaf's type")
					return
				}
				add("leaf", cls+" unevaluable", fmt.Sprintf("SQL %s: %v", sql, err), "an evaluable predicate")
				return
			}
			if got != want {
				add("leaf", cls, fmt.Sprintf("SQL %s is %v on row %s", sql, got, sqlref.RowString(row)), fmt.Sprintf("%v (the query's meaning)", want))
				return
			}
		}
		return
	}
	// compound: first its leaves on their own (a leaf that does not render or read is the leaf
	// clause's business)
	leafSQL := map[*qast.Leaf]*sqlref.Read{}
	ok := true
	qast.Walk(t, func(n *qast.Node) {
		if n.Op != qast.OLeaf || !ok {
			return
		}
		s, e, p := toPostgres(qast.Text(n, nil), "")
		if p != nil || e != nil {
			ok = false
			return
		}
		r, err := sqlref.ReadFilter(s)
		if err != nil {
			ok = false
			return
		}
		leafSQL[n.Leaf] = r
	})
	if !ok {
		res.Tags = append(res.Tags, "skipped_upstream_leaf")
		return
	}
	if rerr != nil {
		add("compound", "render-error", rerr.Error(), "ToPostgres succeeds: every leaf renders on its own")
		return
	}
	rd, err := sqlref.ReadFilter(sql)
	if err != nil {
		res.Tags = append(res.Tags, "skipped_upstream_unconfined")
		return
	}
	res.Nontrivial = true
	res.Hash = core.Hash64(sql)
	pr := sqlref.NewProbe()
	pr.AddTree(t)
	for _, row := range pr.Rows(fieldTypes, 4000) {
		res.Extra++
		env := &sqlref.Env{Row: row}
		want, err := sqlref.Combine(t, func(l *qast.Leaf) (bool, error) { return env.Eval(leafSQL[l].Pred) })
		if err != nil {
			res.Tags = append(res.Tags, "outside_fragment")
			continue
		}
		got, err := env.Eval(rd.Pred)
		if err != nil {
			res.Tags = append(res.Tags, "outside_fragment")
			continue
		}
		if got != want {
			add("compound", "wrong-combination", fmt.Sprintf("SQL %s is %v on row %s", sql, got, sqlref.RowString(row)),
				fmt.Sprintf("%v = the query's Boolean combination of its leaves' SQL", want))
			return
		}
	}
	return
}

// predShape prints the predicate PostgreSQL's grammar read, with constants abstracted (N, S): it
// does not depend on whitespace or redundant parentheses in the SQL text.
func predShape(n *sqlref.Node) string {
	switch n.Kind {
	case sqlref.KCol:
		return "col"
	case sqlref.KConst:
		if n.Const.IsNum {
			return "N"
		}
		return "S"
	case sqlref.KParam:
		return "?"
	}
	var parts []string
	for _, k := range n.Kids {
		parts = append(parts, predShape(k))
	}
	return n.Kind + n.Op + "(" + strings.Join(parts, ",") + ")"
}

var (
	shapeStr = regexp.MustCompile(`'(?:[^']|'')*'`)
	shapeNum = regexp.MustCompile(`-?\b\d+(?:\.\d+)?(?:[eE][-+]?\d+)?\b`)
)

// sqlShape abstracts constants: strings to S, numbers to N.
func sqlShape(sql string) string {
	return shapeNum.ReplaceAllString(shapeStr.ReplaceAllString(sql, "S"), "N")
}

func c03Shrink(c core.Case) []core.Case {
	if c.Kind == "leaf" {
		return nil // leaves are atomic; the class already abstracts the values
	}
	t, err := qast.Decode(c.Tree)
	if err != nil {
		return nil
	}
	simple := leavesC03Small(1)[0]
	var out []core.Case
	for _, s := range shrinkTreesWith(t, simple) {
		if s.Op == qast.OLeaf {
			continue
		}
		out = append(out, core.Case{Kind: "tree", In: core.BStr(qast.Text(s, &qast.PrintOpts{Full: true})), Tree: qast.Encode(s)})
	}
	return out
}
