// Package checks holds one file per property; each registers a core.Check.
package checks

import (
	"encoding/json"
	"fmt"
	"reflect"
	"strings"
	"unicode/utf8"

	lucene "github.com/grindlemire/go-lucene"
	"github.com/grindlemire/go-lucene/pkg/lucene/expr"
	"github.com/grindlemire/go-lucene/verif/core"
)

func decodeRune(s string) (rune, int) { return utf8.DecodeRuneInString(s) }

// parse calls lucene.Parse under recover with the case's default-field option.
func parse(in string, df core.BStr) (e *expr.Expression, err error, pi *core.PanicInfo) {
	pi = core.Safe(func() {
		if df != "" {
			e, err = lucene.Parse(in, lucene.WithDefaultField(string(df)))
		} else {
			e, err = lucene.Parse(in)
		}
	})
	return
}

// treeHash identifies an accepted tree (GoString shows operators, kinds and Go types of leaves).
func treeHash(e *expr.Expression) uint64 {
	var s string
	if pi := core.Safe(func() { s = fmt.Sprintf("%#v", e) }); pi != nil {
		s = pi.String()
	}
	return core.Hash64(s)
}

func gostr(e *expr.Expression) (s string) {
	if e == nil {
		return "<nil>"
	}
	if pi := core.Safe(func() { s = fmt.Sprintf("%#v", e) }); pi != nil {
		return pi.String()
	}
	// GoString does not show boost power / fuzzy distance defaults; add JSON for those
	if pi := core.Safe(func() {
		b, err := json.Marshal(e)
		if err == nil {
			s += "  json=" + string(b)
		}
	}); pi != nil {
		s += "  json=<" + pi.String() + ">"
	}
	return s
}

func deepEqual(a, b *expr.Expression) bool { return reflect.DeepEqual(a, b) }

// shrinkBytes: candidates for byte-string cases (In only): drop one rune, replace one rune by 'a'.
func shrinkBytes(c core.Case) []core.Case {
	in := string(c.In)
	var out []core.Case
	for i := 0; i < len(in); {
		_, w := utf8.DecodeRuneInString(in[i:])
		d := c
		d.In = core.BStr(in[:i] + in[i+w:])
		out = append(out, d)
		i += w
	}
	for i := 0; i < len(in); {
		_, w := utf8.DecodeRuneInString(in[i:])
		if in[i:i+w] != "a" {
			d := c
			d.In = core.BStr(in[:i] + "a" + in[i+w:])
			out = append(out, d)
		}
		i += w
	}
	return out
}

// token kinds for shrinking: the simplest representative of each kind
// simpler lists, for one token, the simpler tokens of its kind to try (in order).
func simpler(t string) []string {
	switch t {
	case "a":
		return nil
	case "5":
		return []string{"a"}
	case "-5", "1.5", "1", "2", "3", "0":
		return []string{"a", "5"}
	case "b", `"q r"`, "w*", "*", "/r/", "v", "f", "g", "x", "y", "D":
		return []string{"a"}
	case "=":
		return []string{":"}
	case "<":
		return []string{">"}
	case "{":
		return []string{"["}
	case "}":
		return []string{"]"}
	case "OR":
		return []string{"AND"}
	case "-":
		return []string{"+"}
	case "^":
		return []string{"~"}
	}
	if isTermTok(t) && t != "!" {
		if intRe.MatchString(t) || floatRe.MatchString(t) {
			return []string{"a", "5"}
		}
		return []string{"a"}
	}
	return nil
}

// splitTokens splits a single-space-joined token text; a double-quoted phrase is one token.
func splitTokens(in string) []string {
	var toks []string
	for i := 0; i < len(in); {
		if in[i] == ' ' {
			i++
			continue
		}
		j := i
		if in[i] == '"' {
			j = i + 1
			for j < len(in) && in[j] != '"' {
				j++
			}
			if j < len(in) {
				j++
			}
		} else {
			for j < len(in) && in[j] != ' ' {
				j++
			}
		}
		toks = append(toks, in[i:j])
		i = j
	}
	return toks
}

// shrinkTokens: candidates for token-sequence cases (In = tokens joined by single spaces): drop one
// token, drop two adjacent tokens, drop a matching bracket pair, drop a prefix / suffix, replace one
// token by the simplest of its kind.
func shrinkTokens(c core.Case) []core.Case {
	return shrinkTokensField(c, func(c core.Case) string { return string(c.In) }, func(c *core.Case, s string) { c.In = core.BStr(s) })
}

func shrinkTokensField(c core.Case, get func(core.Case) string, set func(*core.Case, string)) []core.Case {
	in := get(c)
	if in == "" {
		return nil
	}
	toks := splitTokens(in)
	var out []core.Case
	emit := func(t []string) {
		d := c
		set(&d, strings.Join(t, " "))
		out = append(out, d)
	}
	without := func(idx ...int) []string {
		skip := map[int]bool{}
		for _, i := range idx {
			skip[i] = true
		}
		var t []string
		for i, x := range toks {
			if !skip[i] {
				t = append(t, x)
			}
		}
		return t
	}
	n := len(toks)
	// halves first (fast progress on long inputs)
	if n >= 6 {
		emit(toks[:n/2])
		emit(toks[n/2:])
	}
	// contiguous windows, longest first (drops whole leaves such as `f : [ 1 TO 5 ]` in one step)
	for l := n - 1; l >= 1; l-- {
		if l > 12 && l < n-1 {
			continue
		}
		for i := 0; i+l <= n; i++ {
			t := append([]string{}, toks[:i]...)
			t = append(t, toks[i+l:]...)
			if len(t) > 0 {
				emit(t)
			}
		}
	}
	// bracket pairs
	open := map[string]string{"(": ")", "[": "]", "{": "}"}
	for i := 0; i < n; i++ {
		if cl, ok := open[toks[i]]; ok {
			for j := i + 1; j < n; j++ {
				if toks[j] == cl && j != i+1 {
					emit(without(i, j))
				}
			}
		}
	}
	for i := 0; i < n; i++ {
		for _, s := range simpler(toks[i]) {
			t := append([]string{}, toks...)
			t[i] = s
			emit(t)
		}
	}
	if c.DF != "" {
		d := c
		d.DF = ""
		out = append(out, d)
	}
	return out
}
