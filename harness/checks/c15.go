package checks

import (
	"fmt"
	"sort"
	"strconv"
	"strings"

	lucene "github.com/grindlemire/go-lucene"
	"github.com/grindlemire/go-lucene/pkg/driver"
	"github.com/grindlemire/go-lucene/pkg/lucene/expr"
	"github.com/grindlemire/go-lucene/verif/core"
	"github.com/grindlemire/go-lucene/verif/qast"
)

// C15 — custom drivers: Render folds the tree with exactly the supplied functions.
//
// Case: Kind "fold"; In = query text the tree is obtained from (Aux "parse") or the harness AST
// in Tree built through the public constructors (Aux "build"); In2 = configuration:
//   "trace"          every operator mapped to a tracing function
//   "override:<op>"  as trace, operator <op> mapped to a differently tagged tracing function
//   "remove:<op>"    as trace without <op>
//   "empty:<op>"     as trace, the function of <op> returns the empty string
//   "readme"         the README construction (Shared + custom equals)
//   "unsupported"    ToPostgres / ToParameterizedPostgres on a query containing ~ or ^
//
// Oracle (fold model): every *Expression node is handed, exactly once and after its children, to
// the function registered for its operator, with the results of its children (raw values as the
// driver serialises them; each argument wrapped in parentheses at most); the result of Render is
// the root's call result. With an operator removed: ("", error) iff the tree contains it.

var allOps = []expr.Operator{expr.And, expr.Or, expr.Equals, expr.Like, expr.Not, expr.Range, expr.Must, expr.MustNot,
	expr.Boost, expr.Fuzzy, expr.Literal, expr.Wild, expr.Regexp, expr.Greater, expr.Less, expr.GreaterEq, expr.LessEq, expr.In, expr.List}

type traceCall struct {
	key         expr.Operator // the operator the function was registered under
	tag         string
	left, right string
	ret         string
	used        bool
}

type tracer struct {
	calls []*traceCall
}

func (t *tracer) fn(key expr.Operator, tag string) driver.RenderFN {
	return func(left, right string) (string, error) {
		ret := "⟨" + tag + key.String() + "|" + left + "|" + right + "⟩"
		t.calls = append(t.calls, &traceCall{key: key, tag: tag, left: left, right: right, ret: ret})
		return ret, nil
	}
}

func init() {
	core.Register(&core.Check{
		ID:    "C15",
		Title: "Custom drivers: Render folds the tree with exactly the supplied functions",
		Units: func(tier string) []core.Unit {
			var us []core.Unit
			add := func(names []string, w int) {
				for _, x := range names {
					us = append(us, core.Unit{Name: x, Weight: w})
				}
			}
			add(qast.TreeUnits("tree|full|1|fold", len(treeSet("full0")), 1), 1)
			add(qast.TreeUnits("tree|small6|2|fold", len(treeSet("small1")), 8), 2)
			if tier == "thorough" {
				add(qast.TreeUnits("tree|full|2|fold", len(treeSet("full1")), 60), 4)
			}
			add([]string{"groups", "args"}, 2)
			return us
		},
		Run: func(w *core.Worker, tier, unit string) {
			if unit == "args" {
				// every spelling of the numeric argument (the defaults 1 / 1.0 written out included):
				// a query with ~ or ^ is refused whatever the number says
				var forms []qast.UForm
				for _, a := range []string{"", "1", "1.0", "1.00", "0", "0.0", "2", "1.25", "10"} {
					forms = append(forms, qast.UForm{Op: qast.OBoost, Arg: a})
				}
				for _, a := range []string{"", "0", "1", "2", "10"} {
					forms = append(forms, qast.UForm{Op: qast.OFuzzy, Arg: a})
				}
				forms = append(forms, qast.UForm{Op: qast.ONot}, qast.UForm{Op: qast.OMust})
				for _, t := range qast.AllTreesU(qast.LeavesSmall(3), forms, 2) {
					ops := nodeOps(t)
					if !ops["FUZZY"] && !ops["BOOST"] {
						continue
					}
					txt := qast.Text(t, nil)
					w.Do(core.Case{Kind: "fold", In: core.BStr(txt), In2: "unsupported"})
					w.Do(core.Case{Kind: "fold", In: core.BStr(txt), In2: "unsupported", DF: "D"})
				}
				return
			}
			if unit == "groups" {
				// ~ and ^ anywhere inside a field's value group (where the parser may turn the group
				// into a value list or push the field inwards): the renderers must still refuse
				T := func(v qast.Value) *qast.Node { return qast.Lf(qast.Leaf{Kind: qast.LTerm, Val: v}) }
				leaves := []*qast.Node{T(qast.W("x")), T(qast.W("y")), T(qast.Q("q r")), T(qast.I("5"))}
				forms := []qast.UForm{{Op: qast.ONot}, {Op: qast.OFuzzy}, {Op: qast.OFuzzy, Arg: "2"}, {Op: qast.OBoost}, {Op: qast.OBoost, Arg: "2"}}
				for _, sub := range qast.AllTreesU(leaves, forms, 2) {
					ops := nodeOps(sub)
					if !ops["FUZZY"] && !ops["BOOST"] {
						continue
					}
					g := qast.Lf(qast.Leaf{Kind: qast.LGroup, Field: "f", Sub: sub})
					for _, t := range []*qast.Node{g, qast.Bin(qast.OAnd, g, qast.Lf(qast.Leaf{Kind: qast.LEq, Field: "b", Val: qast.W("c")}))} {
						txt := qast.Text(t, nil)
						w.Do(core.Case{Kind: "fold", In: core.BStr(txt), In2: "unsupported"})
						w.Do(core.Case{Kind: "fold", In: core.BStr(txt), In2: "unsupported", DF: "D"})
					}
				}
				return
			}
			leaves, sub := treeUnitSets(unit)
			_, eu := stripTreeUnit(unit)
			configs := []string{"trace", "readme"}
			for _, op := range allOps {
				configs = append(configs, "override:"+op.String(), "remove:"+op.String())
				if op != expr.Literal && op != expr.Wild && op != expr.Regexp {
					configs = append(configs, "empty:"+op.String())
				}
			}
			if strings.Contains(unit, "|full|1|") && strings.HasSuffix(unit, "|leafun") {
				for name := range apiTrees() {
					for _, cfg := range configs {
						w.Do(core.Case{Kind: "fold", In: core.BStr(name), In2: core.BStr(cfg), Aux: core.BStr("api:" + name)})
					}
				}
			}
			deep := strings.Contains(unit, "|full|2|")
			qast.EnumTreeUnit(eu, leaves, sub, func(t *qast.Node) {
				txt := qast.Text(t, nil)
				enc := qast.Encode(t)
				ops := nodeOps(t)
				for _, cfg := range configs {
					if deep && strings.Contains(cfg, ":") {
						// at depth 2 over the full alphabet only the operators present in the tree
						// (plus one absent) are overridden / removed
						op := cfg[strings.IndexByte(cfg, ':')+1:]
						if !ops[op] && op != "REGEXP" {
							continue
						}
					}
					w.Do(core.Case{Kind: "fold", In: core.BStr(txt), In2: core.BStr(cfg), Aux: "parse"})
					w.Do(core.Case{Kind: "fold", In: core.BStr(txt), In2: core.BStr(cfg), Aux: "build", Tree: enc})
				}
				if ops["FUZZY"] || ops["BOOST"] {
					w.Do(core.Case{Kind: "fold", In: core.BStr(txt), In2: "unsupported"})
					w.Do(core.Case{Kind: "fold", In: core.BStr(txt), In2: "unsupported", DF: "D"})
					w.Do(core.Case{Kind: "fold", In: core.BStr(txt), In2: "private-map"})
				}
			})
		},
		Eval:   c15Eval,
		Shrink: c15Shrink,
		Rule: "configurations {all-tracing map, each single-operator override (19), each single-operator removal (19), each operator's function returning the empty string (16), the README construction} x trees of TREE(L_full,1) ∪ TREE(L_small,2) (thorough: TREE(L_full,2)), " +
			"each obtained both by Parse and directly through the public constructors; plus ToPostgres/ToParameterizedPostgres on every text containing ~ or ^, including every value group f:(T) with T in TREE({x,y,phrase,5},2) over NOT ~ ~2 ^ ^2 AND OR; non-trivial = Render succeeded; distinct = distinct outputs",
		Assumptions: []string{"how raw leaf values are serialised ('str', \"col\", numbers) is not part of this property and is not checked",
			"the order in which independent children are rendered is not constrained, only children-before-parent"},
		Bounds: func(tier string) map[string]any {
			if tier == "thorough" {
				return map[string]any{"trees": "T(25,1) ∪ T(6,2) ∪ T(25,2)", "configs": 40}
			}
			return map[string]any{"trees": "T(25,1) ∪ T(6,2)", "configs": 40}
		},
		Deadline: func(tier string) int {
			if tier == "thorough" {
				return 1000
			}
			return 300
		},
	})
}

func nodeOps(t *qast.Node) map[string]bool {
	m := map[string]bool{}
	var walk func(v any)
	walk = func(v any) {
		switch x := v.(type) {
		case *expr.Expression:
			if x == nil {
				return
			}
			m[x.Op.String()] = true
			walk(x.Left)
			walk(x.Right)
		case []*expr.Expression:
			for _, it := range x {
				walk(it)
			}
		case *expr.RangeBoundary:
			if x != nil {
				walk(x.Min)
				walk(x.Max)
			}
		}
	}
	walk(qast.Build(t))
	return m
}

func exprOps(e *expr.Expression) (map[expr.Operator]int, int) {
	m := map[expr.Operator]int{}
	n := 0
	var walk func(v any)
	walk = func(v any) {
		switch x := v.(type) {
		case *expr.Expression:
			if x == nil {
				return
			}
			m[x.Op]++
			n++
			walk(x.Left)
			walk(x.Right)
		case []*expr.Expression:
			for _, it := range x {
				walk(it)
			}
		case *expr.RangeBoundary:
			if x != nil {
				walk(x.Min)
				walk(x.Max)
			}
		}
	}
	walk(e)
	return m, n
}

func opByName(name string) (expr.Operator, bool) {
	for _, o := range allOps {
		if o.String() == name {
			return o, true
		}
	}
	return 0, false
}

// foldModel matches the call log against the tree. It returns "" or a description of the first
// mismatch. root is the string Render returned.
type foldModel struct {
	calls []*traceCall
	reg   func(op expr.Operator) (tag string, ok bool) // what is registered for op
	err   string
}

func parenEither(arg, want string) bool { return arg == want || arg == "("+want+")" }

// value returns the set of acceptable renderings of a child and the index after which the parent
// call must come; for raw values any string is acceptable (wild == true).
type childVal struct {
	s     string
	wild  bool
	after int
}

func (m *foldModel) child(v any) childVal {
	switch x := v.(type) {
	case nil:
		return childVal{s: "", after: -1}
	case *expr.Expression:
		if x == nil {
			return childVal{s: "", after: -1}
		}
		return m.node(x)
	case []*expr.Expression:
		var parts []string
		after := -1
		for _, it := range x {
			c := m.node(it)
			parts = append(parts, c.s)
			if c.after > after {
				after = c.after
			}
		}
		return childVal{s: strings.Join(parts, ", "), after: after}
	case *expr.RangeBoundary:
		if x == nil {
			return childVal{s: "", after: -1}
		}
		lo, hi := m.child(x.Min), m.child(x.Max)
		after := lo.after
		if hi.after > after {
			after = hi.after
		}
		if x.Inclusive {
			return childVal{s: "[" + lo.s + ", " + hi.s + "]", after: after}
		}
		return childVal{s: "(" + lo.s + ", " + hi.s + ")", after: after}
	default:
		return childVal{wild: true, after: -1} // raw value: serialisation not checked here
	}
}

func (m *foldModel) node(e *expr.Expression) childVal {
	if m.err != "" {
		return childVal{}
	}
	l := m.child(e.Left)
	r := m.child(e.Right)
	if m.err != "" {
		return childVal{}
	}
	tag, _ := m.reg(e.Op)
	after := l.after
	if r.after > after {
		after = r.after
	}
	for i, c := range m.calls {
		if c.used || i <= after || c.key != e.Op || c.tag != tag {
			continue
		}
		if !l.wild && !parenEither(c.left, l.s) {
			continue
		}
		if !r.wild && !parenEither(c.right, r.s) {
			continue
		}
		c.used = true
		return childVal{s: c.ret, after: i}
	}
	m.err = fmt.Sprintf("no call of the function registered for %v with left=%q right=%q (or parenthesised) after call #%d", e.Op, l.s, r.s, after)
	return childVal{}
}

// apiTrees: expressions only the constructors (or JSON) can produce: lists holding patterns, a
// list under NOT, nested lists of one element.
func apiTrees() map[string]*expr.Expression {
	lst := func(items ...*expr.Expression) *expr.Expression { return expr.LIST(items) }
	return map[string]*expr.Expression{
		"in-wild-first":  expr.IN("a", lst(expr.WILD("x*"), expr.Lit("y"))),
		"in-wild-middle": expr.IN("a", lst(expr.Lit("x"), expr.REGEXP("/r/"), expr.Lit("z"))),
		"in-wild-last":   expr.IN("a", lst(expr.Lit("x"), expr.WILD("y?"))),
		"not-in":         expr.NOT(expr.IN("a", lst(expr.Lit(1), expr.Lit(2), expr.Lit(3)))),
		"in-one":         expr.AND(expr.IN("a", lst(expr.Lit("x"))), expr.Eq("b", expr.WILD("w*"))),
		"range-wild":     expr.OR(expr.Rang("a", expr.WILD("*"), expr.Lit(5), true), expr.Rang("b", expr.Lit("x"), expr.WILD("*"), false)),
	}
}

func c15Tree(c core.Case) (*expr.Expression, bool) {
	if strings.HasPrefix(string(c.Aux), "api:") {
		e, ok := apiTrees()[string(c.Aux)[4:]]
		return e, ok
	}
	if string(c.Aux) == "build" {
		t, err := qast.Decode(c.Tree)
		if err != nil {
			return nil, false
		}
		return qast.Build(t), true
	}
	p := doParse(string(c.In), c.DF)
	if p.pi != nil || p.err != nil || p.e == nil {
		return nil, false
	}
	return p.e, true
}

func c15Eval(c core.Case) (res core.Result) {
	add := func(clause, class, obs, exp string) {
		res.Obs = append(res.Obs, core.Obs{Clause: clause, Class: class, Observed: obs, Expected: exp})
	}
	cfg := string(c.In2)
	if cfg == "unsupported" {
		// (minimisation must not leave the quantifier: the query still contains ~ or ^ as an operator)
		hasOp := false
		for _, t := range splitTokens(string(c.In)) {
			if t == "~" || t == "^" {
				hasOp = true
			}
		}
		if !hasOp {
			return
		}
		var e1, e2 error
		var s1, s2 string
		if pi := core.Safe(func() {
			if c.DF != "" {
				s1, e1 = lucene.ToPostgres(string(c.In), lucene.WithDefaultField(string(c.DF)))
				s2, _, e2 = lucene.ToParameterizedPostgres(string(c.In), lucene.WithDefaultField(string(c.DF)))
			} else {
				s1, e1 = lucene.ToPostgres(string(c.In))
				s2, _, e2 = lucene.ToParameterizedPostgres(string(c.In))
			}
		}); pi != nil {
			res.Tags = append(res.Tags, "skipped_upstream_panic")
			return
		}
		res.Nontrivial = true
		res.Hash = core.Hash64("unsupported", fmt.Sprint(e1))
		if e1 == nil {
			add("unsupported", "ToPostgres-succeeds", fmt.Sprintf("%q", s1), "an error: the query contains a fuzzy or boost operator")
		}
		if e2 == nil {
			add("unsupported", "ToParameterizedPostgres-succeeds", fmt.Sprintf("%q", s2), "an error: the query contains a fuzzy or boost operator")
		}
		return
	}
	if cfg == "private-map" {
		// a driver obtained from NewPostgresDriver owns its function map: registering functions in
		// it must not change what another driver, driver.Shared or ToPostgres do
		var errBefore, errAfter error
		var sharedBefore, sharedAfter int
		if pi := core.Safe(func() {
			_, errBefore = lucene.ToPostgres(string(c.In))
			sharedBefore = len(driver.Shared)
			d := driver.NewPostgresDriver()
			ident := func(l, r string) (string, error) { return l, nil }
			_, hadF := d.RenderFNs[expr.Fuzzy]
			_, hadB := d.RenderFNs[expr.Boost]
			d.RenderFNs[expr.Fuzzy] = ident
			d.RenderFNs[expr.Boost] = ident
			_, errAfter = lucene.ToPostgres(string(c.In))
			sharedAfter = len(driver.Shared)
			// undo, so that a leak (if any) does not poison the cases that follow
			if !hadF {
				delete(d.RenderFNs, expr.Fuzzy)
			}
			if !hadB {
				delete(d.RenderFNs, expr.Boost)
			}
		}); pi != nil {
			res.Tags = append(res.Tags, "skipped_upstream_panic")
			return
		}
		res.Nontrivial = true
		res.Hash = core.Hash64("private-map", fmt.Sprint(errBefore))
		if errBefore != nil && errAfter == nil {
			add("unsupported", "leaks-from-another-driver", "ToPostgres succeeds after Fuzzy/Boost were registered in a different driver's map", "still an error: "+errBefore.Error())
		}
		if sharedAfter != sharedBefore {
			add("unsupported", "shared-table-modified", fmt.Sprintf("driver.Shared has %d entries after registering functions in a driver's own map (was %d)", sharedAfter, sharedBefore), "driver.Shared unchanged")
		}
		return
	}
	e, ok := c15Tree(c)
	if !ok {
		res.Tags = append(res.Tags, "skipped_upstream_not_parsed")
		return
	}
	ops, nodes := exprOps(e)
	if cfg == "readme" {
		// the README construction: a custom function for one operator laid over driver.Shared. The
		// custom equals counts its calls and delegates to the stock function, so the expected output
		// is simply the stock driver's output (no assumption about how the SQL is formatted), and the
		// number of calls must be the number of EQUALS nodes.
		calls := 0
		stock := driver.Shared[expr.Equals]
		fns := map[expr.Operator]driver.RenderFN{expr.Equals: func(l, r string) (string, error) {
			calls++
			if stock == nil {
				return l + " = " + r, nil
			}
			return stock(l, r)
		}}
		for op, f := range driver.Shared {
			if _, found := fns[op]; !found {
				fns[op] = f
			}
		}
		var s1, s2 string
		var e1, e2 error
		if pi := core.Safe(func() {
			s1, e1 = driver.NewPostgresDriver().Render(e)
			s2, e2 = driver.Base{RenderFNs: fns}.Render(e)
		}); pi != nil {
			res.Tags = append(res.Tags, "skipped_upstream_panic")
			return
		}
		if (e1 == nil) != (e2 == nil) {
			add("readme", "error-differs", fmt.Sprintf("custom: %q,%v", s2, e2), fmt.Sprintf("postgres: %q,%v", s1, e1))
			return
		}
		if e1 != nil {
			return
		}
		res.Nontrivial = true
		res.Hash = core.Hash64(s2)
		if s2 != s1 {
			add("readme", "output-differs", s2, s1)
		}
		if calls != ops[expr.Equals] {
			add("readme", "override-call-count", fmt.Sprintf("%d calls of the custom EQUALS function for %d EQUALS nodes", calls, ops[expr.Equals]), "one call per EQUALS node")
		}
		return
	}
	// tracing configurations
	tr := &tracer{}
	fns := map[expr.Operator]driver.RenderFN{}
	tags := map[expr.Operator]string{}
	for _, op := range allOps {
		fns[op] = tr.fn(op, "")
		tags[op] = ""
	}
	var special expr.Operator
	kind := cfg
	if i := strings.IndexByte(cfg, ':'); i >= 0 {
		kind = cfg[:i]
		op, found := opByName(cfg[i+1:])
		if !found {
			panic("C15: bad config " + cfg)
		}
		special = op
		switch kind {
		case "override":
			fns[op] = tr.fn(op, "X")
			tags[op] = "X"
		case "empty":
			// a custom function may return anything, the empty string included (an operator rendered
			// as nothing): its parent is still called, with that result
			fns[op] = func(left, right string) (string, error) {
				tr.calls = append(tr.calls, &traceCall{key: op, tag: "E", left: left, right: right, ret: ""})
				return "", nil
			}
			tags[op] = "E"
		case "remove":
			delete(fns, op)
			delete(tags, op)
		}
	}
	var out string
	var err error
	if pi := core.Safe(func() { out, err = driver.Base{RenderFNs: fns}.Render(e) }); pi != nil {
		add("fold", "panic:"+core.AbstractMsg(pi.Msg)+"@"+pi.Where, pi.String(), "Render returns")
		return
	}
	if kind == "remove" && ops[special] > 0 {
		if err == nil || out != "" {
			add("missing", fmt.Sprintf("no-error-for-missing-%v", ""), fmt.Sprintf("Render returned %q, %v", out, err),
				"(\"\", error): no function is registered for an operator of the tree")
		}
		res.Nontrivial = true
		res.Hash = core.Hash64("missing", cfg)
		return
	}
	if err != nil {
		add("fold", "unexpected-error", err.Error(), "Render succeeds: every operator of the tree has a function")
		return
	}
	res.Nontrivial = true
	res.Hash = core.Hash64(out)
	if len(tr.calls) != nodes {
		add("fold", "call-count", fmt.Sprintf("%d calls for %d nodes; output %s", len(tr.calls), nodes, out), "every node visited exactly once")
		return
	}
	m := &foldModel{calls: tr.calls, reg: func(op expr.Operator) (string, bool) { t, ok := tags[op]; return t, ok }}
	root := m.node(e)
	if m.err != "" {
		add("fold", "call-mismatch", m.err+"; calls: "+dumpCalls(tr.calls), "each node handed to its operator's function with its children's results in (left, right) order")
		return
	}
	if root.s != out {
		add("fold", "result-not-root", out, root.s)
	}
	return
}

func dumpCalls(cs []*traceCall) string {
	var parts []string
	for i, c := range cs {
		parts = append(parts, strconv.Itoa(i)+":"+c.tag+c.key.String()+"("+c.left+" ; "+c.right+")")
	}
	s := strings.Join(parts, " ")
	if len(s) > 600 {
		s = s[:600] + "…"
	}
	return s
}

func c15Shrink(c core.Case) []core.Case {
	var out []core.Case
	if strings.HasPrefix(string(c.Aux), "api:") {
		return nil
	}
	if string(c.Aux) == "build" && c.Tree != "" {
		t, err := qast.Decode(c.Tree)
		if err != nil {
			return nil
		}
		for _, s := range shrinkTrees(t) {
			d := c
			d.Tree = qast.Encode(s)
			d.In = core.BStr(qast.Text(s, nil))
			out = append(out, d)
		}
		return out
	}
	for _, d := range shrinkTokens(core.Case{Kind: c.Kind, In: c.In}) {
		e := c
		e.In = d.In
		out = append(out, e)
	}
	// a removal / override config may shrink to the plain tracing config
	if strings.Contains(string(c.In2), ":") {
		d := c
		d.In2 = "trace"
		out = append(out, d)
	}
	sort.SliceStable(out, func(i, j int) bool { return len(out[i].In) < len(out[j].In) })
	return out
}
