//go:build !instr

package checks

import (
	"fmt"
	"strconv"
	"strings"
	"unicode"
	"unicode/utf8"

	"github.com/grindlemire/go-lucene/verif/core"
	"github.com/grindlemire/go-lucene/verif/enum"
	"github.com/grindlemire/go-lucene/verif/qast"
	"github.com/grindlemire/go-lucene/verif/sqlref"
)

// C08 — quoting and escaping deliver values verbatim.
//
// Case: Kind "quote" | "escape"; In = the string w; Aux = slot (eq, cmp, lo, hi, list, bare,
// field). The query text is built from w by the harness (quoted / backslash-escaped) and the
// oracle is w itself:
//   tree   : Parse gives exactly the tree with the plain string value w in that slot
//   sql    : (quote) the inline SQL's string constant, as PostgreSQL's scanner decodes it, is w
//   params : (quote) the parameter list contains the Go string w

var valChars = []string{"a", "b", "5", " ", "\t", "\n", "*", "?", "/", `\`, "'", ":", "(", ")", "[", "+", "-", "~", "^", "!", ",", "%", "_", ";", "é", "中", "😀", "\ufffd"}

var c08Slots = []string{"eq", "cmp", "lo", "hi", "lostar", "hinum", "list", "bare", "baredf", "field"}

func init() {
	enum.ByteAlphabets["val"] = valChars
	enum.ByteAlphabets["valq"] = append(append([]string{}, valChars...), `"`)
	core.Register(&core.Check{
		ID:    "C08",
		Title: "Quoting and escaping deliver values verbatim",
		Units: func(tier string) []core.Unit {
			l := 4
			if tier == "thorough" {
				l = 5
			}
			var us []core.Unit
			for _, u := range enum.SeqUnits("bytes", "val", len(valChars), l, 1) {
				us = append(us, core.Unit{Name: "quote|" + u})
			}
			for _, u := range enum.SeqUnits("bytes", "valq", len(valChars)+1, l, 1) {
				us = append(us, core.Unit{Name: "escape|" + u})
			}
			return us
		},
		Run: func(w *core.Worker, tier, unit string) {
			i := strings.IndexByte(unit, '|')
			kind, eu := unit[:i], unit[i+1:]
			alpha := enum.UnitAlphabet(eu)
			enum.EnumSeqUnit(eu, len(alpha), func(seq []int) {
				s := enum.Join(alpha, seq, "")
				for _, slot := range c08Slots {
					if kind == "quote" && slot == "field" {
						continue
					}
					if kind == "escape" && slot == "baredf" && s == "D" {
						continue
					}
					if kind == "escape" && !escapable(s) {
						continue
					}
					w.Do(core.Case{Kind: kind, In: core.BStr(s), Aux: core.BStr(slot)})
				}
			})
		},
		Eval:   c08Eval,
		Shrink: c08Shrink,
		Rule: "every string of <= L runes over 28 characters (letters, digit, space, tab, newline, * ? / \\ ' : ( ) [ + - ~ ^ ! , % _ ; é 中 😀 U+FFFD; the escaping clause adds \") placed, quoted resp. backslash-escaped, as equality value, comparison value, either range bound, list element, bare term (also as the whole query under a default field) and (escaping) field name; " +
			"non-trivial = accepted by Parse; distinct = distinct (string, slot) pairs accepted",
		Assumptions: []string{"strings that Go reads as numbers (incl. Inf/NaN) and the keywords AND OR NOT TO are excluded from the escaping clause; strings with NUL or invalid UTF-8 are outside the quantifier",
			"if the inline renderer rejects the query (C03's business) the sql clause is skipped"},
		Bounds: func(tier string) map[string]any {
			if tier == "thorough" {
				return map[string]any{"L": 5, "sql_checked_upto": 3}
			}
			return map[string]any{"L": 4, "sql_checked_upto": 3}
		},
		Deadline: func(tier string) int {
			if tier == "thorough" {
				return 1000
			}
			return 300
		},
	})
}

func escapable(w string) bool {
	if w == "" {
		return false
	}
	if _, err := strconv.ParseFloat(w, 64); err == nil {
		return false
	}
	if _, err := strconv.Atoi(w); err == nil {
		return false
	}
	switch strings.ToUpper(w) {
	case "AND", "OR", "NOT", "TO":
		return false
	}
	return true
}

func escapeWord(w string) string {
	var sb strings.Builder
	for i := 0; i < len(w); {
		r, size := utf8.DecodeRuneInString(w[i:])
		if !(r == '_' || unicode.IsLetter(r) || unicode.IsDigit(r)) || (r == utf8.RuneError && size == 1) {
			sb.WriteByte('\\')
		}
		sb.WriteString(w[i : i+size]) // raw bytes: invalid UTF-8 stays what it was
		i += size
	}
	return sb.String()
}

// c08Leaf builds the leaf with value v in the slot; other slots hold the plain word z / field f.
func c08Leaf(slot string, v qast.Value) *qast.Node {
	z := qast.W("z")
	switch slot {
	case "eq":
		return qast.Lf(qast.Leaf{Kind: qast.LEq, Field: "f", Val: v})
	case "cmp":
		return qast.Lf(qast.Leaf{Kind: qast.LGe, Field: "f", Val: v})
	case "lo":
		return qast.Lf(qast.Leaf{Kind: qast.LRange, Field: "f", Lo: v, Hi: z, Incl: true})
	case "hi":
		return qast.Lf(qast.Leaf{Kind: qast.LRange, Field: "f", Lo: z, Hi: v, Incl: true})
	case "lostar": // the other bound open, resp. a quoted numeral: what the value is must not depend on its neighbour
		return qast.Lf(qast.Leaf{Kind: qast.LRange, Field: "f", Lo: v, Hi: qast.Star, Incl: true})
	case "hinum":
		return qast.Lf(qast.Leaf{Kind: qast.LRange, Field: "f", Lo: qast.Q("10"), Hi: v, Incl: true})
	case "list":
		return qast.Lf(qast.Leaf{Kind: qast.LList, Field: "f", List: []qast.Value{z, v}})
	case "bare":
		return qast.Lf(qast.Leaf{Kind: qast.LTerm, Val: v})
	case "field":
		return qast.Lf(qast.Leaf{Kind: qast.LEq, Field: v.Text, Val: z})
	}
	panic("bad slot " + slot)
}

func c08Eval(c core.Case) (res core.Result) {
	w, slot := string(c.In), string(c.Aux)
	add := func(clause, class, obs, exp string) {
		res.Obs = append(res.Obs, core.Obs{Clause: clause, Class: class, Observed: obs, Expected: exp})
	}
	var v qast.Value
	if c.Kind == "quote" {
		v = qast.Q(w)
	} else {
		v = qast.W(escapeWord(w))
	}
	var df core.BStr
	if slot == "baredf" {
		// the bare term as the whole query under a default field: D:<value>, still a plain string
		slot, df = "bare", "D"
	}
	leaf := c08Leaf(slot, v)
	text := qast.Text(leaf, nil)
	want := qast.Build(leaf)
	if df != "" {
		want = qast.Build(qast.Lf(qast.Leaf{Kind: qast.LEq, Field: string(df), Val: v}))
	}
	p := doParse(text, df)
	if p.pi != nil {
		res.Tags = append(res.Tags, "skipped_upstream_panic")
		return
	}
	cls := c.Kind + "/" + string(c.Aux)
	if p.err != nil || p.e == nil {
		add("tree", cls+" rejected", fmt.Sprintf("Parse(%q): %v", text, p.err), gostr(want))
		return
	}
	res.Nontrivial = true
	res.Hash = core.Hash64(c.Kind, slot, w)
	if !deepEqual(p.e, want) {
		add("tree", cls+" different-value", fmt.Sprintf("Parse(%q) = %s", text, gostr(p.e)), gostr(want))
		return
	}
	if c.Kind != "quote" || slot == "bare" && df == "" || len([]rune(w)) > 3 {
		return
	}
	sql, err, pi := toPostgres(text, df)
	if pi != nil {
		res.Tags = append(res.Tags, "skipped_upstream_panic")
		return
	}
	var rd *sqlref.Read
	if err != nil {
		// the alphabet holds no NUL and no invalid UTF-8, so there is nothing PostgreSQL could not
		// take as a constant: a refusal means the value is not delivered
		add("sql", cls+" render-error", fmt.Sprintf("ToPostgres(%q): %v", text, err), fmt.Sprintf("SQL with a string constant equal to %q", w))
	} else if rd, err = sqlref.ReadFilter(sql); err != nil {
		res.Tags = append(res.Tags, "skipped_upstream_unconfined")
	} else {
		found := false
		for _, s := range rd.Strings {
			if s == w {
				found = true
			}
		}
		if !found {
			add("sql", cls+" constant-differs", fmt.Sprintf("%s decodes to constants %q", sql, rd.Strings), fmt.Sprintf("a string constant equal to %q", w))
		}
	}
	_, params, perr, ppi := toParam(text, df)
	if ppi != nil || perr != nil {
		res.Tags = append(res.Tags, "skipped_param_fails")
		return
	}
	found := false
	for _, x := range params {
		if s, ok := x.(string); ok && s == w {
			found = true
		}
	}
	if !found {
		add("params", cls+" not-in-params", fmt.Sprintf("%#v", params), fmt.Sprintf("the parameter list contains %q", w))
	}
	return
}

func c08Shrink(c core.Case) []core.Case {
	var out []core.Case
	r := []rune(string(c.In))
	for i := range r {
		d := c
		d.In = core.BStr(string(append(append([]rune{}, r[:i]...), r[i+1:]...)))
		if c.Kind == "escape" && !escapable(string(d.In)) {
			continue
		}
		out = append(out, d)
	}
	for i := range r {
		if r[i] != 'a' && (unicode.IsLetter(r[i]) || unicode.IsDigit(r[i])) {
			d := c
			rr := append([]rune{}, r...)
			rr[i] = 'a'
			d.In = core.BStr(string(rr))
			if c.Kind == "escape" && !escapable(string(d.In)) {
				continue
			}
			out = append(out, d)
		}
	}
	return out
}
