// Package qast is the harness-side reference model of Lucene query syntax: a small AST, a printer
// that follows the stratified grammar induced by the documented precedence table
// OR < AND < NOT < ^ < ~ < - < +, and a builder that maps the AST to *expr.Expression through the
// library's public constructors only.
package qast

import (
	"fmt"
	"strconv"
	"strings"

	"github.com/grindlemire/go-lucene/pkg/lucene/expr"
)

// Value kinds
const (
	VWord   = "word"
	VInt    = "int"
	VFloat  = "float"
	VQuoted = "quoted" // Text is the content without the quotes
	VWild   = "wild"
	VRegexp = "regexp" // Text includes the slashes
	VStar   = "star"   // the open range bound *
)

type Value struct {
	Kind string `json:"k"`
	Text string `json:"t"`
}

func W(s string) Value  { return Value{VWord, s} }
func I(s string) Value  { return Value{VInt, s} }
func F(s string) Value  { return Value{VFloat, s} }
func Q(s string) Value  { return Value{VQuoted, s} }
func Wi(s string) Value { return Value{VWild, s} }
func Re(s string) Value { return Value{VRegexp, s} }

var Star = Value{VStar, "*"}

// Token is the text of the single token this value is written as.
func (v Value) Token() string {
	if v.Kind == VQuoted {
		return `"` + v.Text + `"`
	}
	return v.Text
}

// Expr is the leaf expression the parser is documented to produce for this value.
func (v Value) Expr() *expr.Expression {
	switch v.Kind {
	case VInt:
		n, err := strconv.Atoi(v.Text)
		if err != nil {
			panic("qast: bad int " + v.Text)
		}
		return expr.Lit(n)
	case VFloat:
		f, err := strconv.ParseFloat(v.Text, 64)
		if err != nil {
			panic("qast: bad float " + v.Text)
		}
		return expr.Lit(f)
	case VWild, VStar:
		return expr.WILD(v.Text)
	case VRegexp:
		return expr.REGEXP(v.Text)
	case VWord:
		// a backslash makes the next character part of the word and is not part of the value
		return expr.Lit(Unescape(v.Text))
	default:
		return expr.Lit(v.Text)
	}
}

// Unescape removes the escaping backslashes of a bare word.
func Unescape(s string) string {
	var sb strings.Builder
	for i := 0; i < len(s); i++ {
		if s[i] == '\\' && i+1 < len(s) {
			i++
		}
		sb.WriteByte(s[i])
	}
	return sb.String()
}

// Leaf kinds
const (
	LTerm  = "term"  // bare value
	LEq    = "eq"    // f:v
	LGt    = "gt"    // f:>v
	LGe    = "ge"    // f:>=v
	LLt    = "lt"    // f:<v
	LLe    = "le"    // f:<=v
	LRange = "range" // f:[lo TO hi] / f:{lo TO hi}
	LList  = "list"  // f:(v1 OR v2 ...)
	LGroup = "group" // f:(E) with an arbitrary sub-query as the field's value
)

type Leaf struct {
	Kind  string  `json:"kind"`
	Field string  `json:"f,omitempty"`
	Val   Value   `json:"v,omitempty"`
	Lo    Value   `json:"lo,omitempty"`
	Hi    Value   `json:"hi,omitempty"`
	Incl  bool    `json:"incl,omitempty"`
	List  []Value `json:"list,omitempty"`
	Sub   *Node   `json:"sub,omitempty"`
}

// Node operators
const (
	OLeaf  = "leaf"
	ONot   = "NOT"
	OMust  = "+"
	OMustN = "-"
	OFuzzy = "~"
	OBoost = "^"
	OAnd   = "AND"
	OOr    = "OR"
)

type Node struct {
	Op   string `json:"op"`
	Leaf *Leaf  `json:"leaf,omitempty"`
	L    *Node  `json:"l,omitempty"`
	R    *Node  `json:"r,omitempty"`
	Arg  string `json:"arg,omitempty"` // "" = default distance/power, otherwise the number as typed ("2", "1.5")
}

func Lf(l Leaf) *Node               { return &Node{Op: OLeaf, Leaf: &l} }
func Un(op string, x *Node) *Node   { return &Node{Op: op, L: x} }
func UnA(op, arg string, x *Node) *Node { return &Node{Op: op, L: x, Arg: arg} }
func Bin(op string, a, b *Node) *Node { return &Node{Op: op, L: a, R: b} }

// precedence levels of the stratified grammar
const (
	lvOr = 1 + iota
	lvAnd
	lvNot
	lvBoost
	lvFuzzy
	lvMustNot
	lvMust
	lvPrimary
)

func level(n *Node) int {
	switch n.Op {
	case OOr:
		return lvOr
	case OAnd:
		return lvAnd
	case ONot:
		return lvNot
	case OBoost:
		return lvBoost
	case OFuzzy:
		return lvFuzzy
	case OMustN:
		return lvMustNot
	case OMust:
		return lvMust
	}
	return lvPrimary
}

// PrintOpts controls the optional freedom of the printer.
type PrintOpts struct {
	Full  bool           // parenthesise every operand of every operator
	Extra map[*Node]bool // redundant parentheses around these nodes
	Juxt  map[*Node]bool // these AND nodes are written as juxtaposition
	// ValueParens: redundant parentheses around the value of these eq leaves
	ValueParens map[*Leaf]bool
	// ArgParens: redundant parentheses around the numeric argument of these ~ / ^ nodes
	ArgParens map[*Node]bool
}

// Tokens prints n as a token list.
func Tokens(n *Node, o *PrintOpts) []string {
	var out []string
	if o == nil {
		o = &PrintOpts{}
	}
	emit(n, lvOr, o, &out, true)
	return out
}

// Text prints n as tokens joined by single spaces.
func Text(n *Node, o *PrintOpts) string { return strings.Join(Tokens(n, o), " ") }

func emit(n *Node, need int, o *PrintOpts, out *[]string, top bool) {
	paren := level(n) < need
	if o.Full && !top && n.Op != OLeaf {
		paren = true
	}
	if o.Extra[n] {
		paren = true
	}
	if paren {
		*out = append(*out, "(")
		emitBare(n, o, out)
		*out = append(*out, ")")
		return
	}
	emitBare(n, o, out)
}

func emitBare(n *Node, o *PrintOpts, out *[]string) {
	switch n.Op {
	case OLeaf:
		*out = append(*out, LeafTokens(n.Leaf, o.ValueParens[n.Leaf])...)
	case OOr:
		emit(n.L, lvOr, o, out, false)
		*out = append(*out, "OR")
		emit(n.R, lvAnd, o, out, false)
	case OAnd:
		emit(n.L, lvAnd, o, out, false)
		if !o.Juxt[n] {
			*out = append(*out, "AND")
		}
		emit(n.R, lvNot, o, out, false)
	case ONot:
		*out = append(*out, "NOT")
		emit(n.L, lvNot, o, out, false)
	case OMust:
		*out = append(*out, "+")
		emit(n.L, lvMust, o, out, false)
	case OMustN:
		*out = append(*out, "-")
		emit(n.L, lvMustNot, o, out, false)
	case OFuzzy:
		emit(n.L, lvFuzzy, o, out, false)
		*out = append(*out, "~")
		if n.Arg != "" && o.ArgParens[n] {
			*out = append(*out, "(", n.Arg, ")")
		} else if n.Arg != "" {
			*out = append(*out, n.Arg)
		}
	case OBoost:
		emit(n.L, lvBoost, o, out, false)
		*out = append(*out, "^")
		if n.Arg != "" && o.ArgParens[n] {
			*out = append(*out, "(", n.Arg, ")")
		} else if n.Arg != "" {
			*out = append(*out, n.Arg)
		}
	default:
		panic("qast: bad op " + n.Op)
	}
}

func LeafTokens(l *Leaf, valueParens bool) []string {
	switch l.Kind {
	case LTerm:
		return []string{l.Val.Token()}
	case LEq:
		if valueParens {
			return []string{l.Field, ":", "(", l.Val.Token(), ")"}
		}
		return []string{l.Field, ":", l.Val.Token()}
	case LGt:
		return []string{l.Field, ":", ">", l.Val.Token()}
	case LGe:
		return []string{l.Field, ":", ">", "=", l.Val.Token()}
	case LLt:
		return []string{l.Field, ":", "<", l.Val.Token()}
	case LLe:
		return []string{l.Field, ":", "<", "=", l.Val.Token()}
	case LRange:
		if l.Incl {
			return []string{l.Field, ":", "[", l.Lo.Token(), "TO", l.Hi.Token(), "]"}
		}
		return []string{l.Field, ":", "{", l.Lo.Token(), "TO", l.Hi.Token(), "}"}
	case LList:
		t := []string{l.Field, ":", "("}
		for i, v := range l.List {
			if i > 0 {
				t = append(t, "OR")
			}
			t = append(t, v.Token())
		}
		return append(t, ")")
	case LGroup:
		t := []string{l.Field, ":", "("}
		t = append(t, Tokens(l.Sub, nil)...)
		return append(t, ")")
	}
	panic("qast: bad leaf kind " + l.Kind)
}

// Build maps the AST to the expression the documented grammar assigns to it, through the public
// constructors only (as parse_test.go does).
func Build(n *Node) *expr.Expression {
	switch n.Op {
	case OLeaf:
		return BuildLeaf(n.Leaf)
	case OOr:
		return expr.OR(Build(n.L), Build(n.R))
	case OAnd:
		return expr.AND(Build(n.L), Build(n.R))
	case ONot:
		return expr.NOT(Build(n.L))
	case OMust:
		return expr.MUST(Build(n.L))
	case OMustN:
		return expr.MUSTNOT(Build(n.L))
	case OFuzzy:
		if n.Arg == "" {
			return expr.FUZZY(Build(n.L))
		}
		d, err := strconv.Atoi(n.Arg)
		if err != nil {
			panic("qast: bad distance " + n.Arg)
		}
		return expr.FUZZY(Build(n.L), d)
	case OBoost:
		if n.Arg == "" {
			return expr.BOOST(Build(n.L))
		}
		p, err := strconv.ParseFloat(n.Arg, 64)
		if err != nil {
			panic("qast: bad power " + n.Arg)
		}
		return expr.BOOST(Build(n.L), p)
	}
	panic("qast: bad op " + n.Op)
}

func BuildLeaf(l *Leaf) *expr.Expression {
	f := expr.Lit(Unescape(l.Field))
	switch l.Kind {
	case LTerm:
		return l.Val.Expr()
	case LEq:
		return expr.Eq(f, l.Val.Expr())
	case LGt:
		return expr.GREATER(f, l.Val.Expr())
	case LGe:
		return expr.GREATEREQ(f, l.Val.Expr())
	case LLt:
		return expr.LESS(f, l.Val.Expr())
	case LLe:
		return expr.LESSEQ(f, l.Val.Expr())
	case LRange:
		return expr.Rang(f, l.Lo.Expr(), l.Hi.Expr(), l.Incl)
	case LList:
		items := []*expr.Expression{}
		for _, v := range l.List {
			items = append(items, v.Expr())
		}
		return expr.IN(f, expr.LIST(items))
	case LGroup:
		// an OR-chain of plain literals is a value list; anything else is the value expression
		if items, ok := orChainOfLiterals(l.Sub); ok && len(items) > 1 {
			return expr.IN(f, expr.LIST(items))
		}
		return expr.Eq(f, Build(l.Sub))
	}
	panic("qast: bad leaf kind " + l.Kind)
}

func orChainOfLiterals(n *Node) ([]*expr.Expression, bool) {
	switch n.Op {
	case OLeaf:
		if n.Leaf.Kind != LTerm {
			return nil, false
		}
		switch n.Leaf.Val.Kind {
		case VWord, VInt, VFloat, VQuoted:
			return []*expr.Expression{n.Leaf.Val.Expr()}, true
		}
		return nil, false
	case OOr:
		l, ok1 := orChainOfLiterals(n.L)
		r, ok2 := orChainOfLiterals(n.R)
		return append(l, r...), ok1 && ok2
	}
	return nil, false
}

// Describe is a compact structural rendering used in messages and signatures.
func Describe(n *Node) string {
	switch n.Op {
	case OLeaf:
		return strings.Join(LeafTokens(n.Leaf, false), "")
	case OAnd, OOr:
		return fmt.Sprintf("%s(%s,%s)", n.Op, Describe(n.L), Describe(n.R))
	default:
		return fmt.Sprintf("%s%s(%s)", n.Op, n.Arg, Describe(n.L))
	}
}

// Walk visits every node in preorder.
func Walk(n *Node, f func(*Node)) {
	if n == nil {
		return
	}
	f(n)
	Walk(n.L, f)
	Walk(n.R, f)
}

// Clone deep-copies a tree (leaves are shared; they are immutable).
func Clone(n *Node) *Node {
	if n == nil {
		return nil
	}
	c := *n
	c.L = Clone(n.L)
	c.R = Clone(n.R)
	return &c
}

func Size(n *Node) int {
	if n == nil {
		return 0
	}
	return 1 + Size(n.L) + Size(n.R)
}

// OperandTokens prints the two operands of an AND node exactly as they appear inside the
// minimal rendering of the AND (parenthesised where the grammar position requires it).
func OperandTokens(n *Node, o *PrintOpts) (left, right []string) {
	if o == nil {
		o = &PrintOpts{}
	}
	emit(n.L, lvAnd, o, &left, false)
	emit(n.R, lvNot, o, &right, false)
	return
}
