package checks

import (
	"encoding/json"
	"regexp"
	"sort"
	"strconv"
	"strings"

	"github.com/grindlemire/go-lucene/pkg/lucene/expr"
	"github.com/grindlemire/go-lucene/verif/core"
	"github.com/grindlemire/go-lucene/verif/enum"
)

// C06 — every accepted query's tree is a derivation of the text that was typed.
//
// Case: Kind "tok", In = tokens joined by single spaces (token identity comes from the
// generator, not from the lexer), DF. Oracle: whenever Parse accepts, derives(tree, tokens).
//
// derives is a memoised recogniser for "this tree can be laid over this token span using only
// the documented productions". It never chooses a precedence, so it cannot disagree with a
// correct parser about grouping; it rejects dropped, duplicated, reordered, retyped or invented
// tokens, empty or unbalanced groups and non-term range bounds.

func init() {
	core.Register(&core.Check{
		ID:    "C06",
		Title: "Every accepted query's tree is a derivation of the text that was typed",
		Units: func(tier string) []core.Unit {
			type sp struct {
				a string
				n int
			}
			spaces := []sp{{"full", 4}, {"paren", 7}, {"range", 7}, {"unary", 7}, {"bool", 7}, {"cmp", 7}, {"like", 7}}
			if tier == "thorough" {
				spaces = []sp{{"full", 5}, {"paren", 10}, {"range", 8}, {"unary", 8}, {"bool", 9}, {"cmp", 8}, {"like", 8}}
			}
			var us []core.Unit
			for _, s := range spaces {
				plen := 2
				if s.n >= 9 {
					plen = 3
				}
				for _, u := range enum.SeqUnits("tok", s.a, len(enum.Alphabets[s.a]), s.n, plen) {
					us = append(us, core.Unit{Name: u, Weight: s.n})
				}
			}
			us = append(us, editUnits(tier)...)
			fn := 4
			if tier == "thorough" {
				fn = 5
			}
			us = append(us, frameUnits([]string{"cmp", "like", "unary"}, fn)...)
			return us
		},
		Run: func(w *core.Worker, tier, unit string) {
			runFlat(w, unit, []core.BStr{"", "D"})
		},
		Eval:   c06Eval,
		Shrink: shrinkTokens,
		Rule: "TOK(Σ_full,N) ∪ TOK(Σ_k,N_k) for six focused alphabets ∪ EDIT(k) of tree renderings ∪ FRAME(10 contexts x TOK(Σ_cmp/like/unary,4/5)), each x {no default field, default field D}; " +
			"every accepted input's tree is checked against the token sequence by the derivation matcher; non-trivial = Parse accepted; distinct = distinct accepted trees",
		Assumptions: []string{
			"the matcher accepts any derivation in the (ambiguous) documented grammar and is lenient where it is silent: parenthesised distance/power, mixed [ } range brackets, = for :",
			"token sequences longer than the bounds and not within the edit distance of a tree rendering are not covered",
		},
		Bounds: func(tier string) map[string]any {
			if tier == "thorough" {
				return map[string]any{"N_full": 5, "N_paren": 10, "N_bool": 9, "N_range": 8, "N_unary": 8, "N_cmp": 8, "edit": "EDIT(1) T(25,1) ∪ T(6,2); EDIT(2) leaves"}
			}
			return map[string]any{"N_full": 4, "N_focused": 7, "edit": "EDIT(1) T(25,1)"}
		},
		Deadline: func(tier string) int {
			if tier == "thorough" {
				return 1000
			}
			return 300
		},
	})
}

var (
	intRe   = regexp.MustCompile(`^-?\d+$`)
	floatRe = regexp.MustCompile(`^-?\d+\.\d+$`)
)

// typedTok is the harness' own reading of one term token.
type typedTok struct {
	kind string // int float quoted wild regexp word; "" for operator tokens
	ival int
	fval float64
	sval string
}

func typeTok(t string) typedTok {
	switch {
	case !isTermTok(t) || t == "!":
		return typedTok{}
	case len(t) >= 2 && t[0] == '"' && t[len(t)-1] == '"':
		return typedTok{kind: "quoted", sval: t[1 : len(t)-1]}
	case len(t) >= 2 && t[0] == '/' && t[len(t)-1] == '/':
		return typedTok{kind: "regexp", sval: t}
	case intRe.MatchString(t):
		n, _ := strconv.Atoi(t)
		return typedTok{kind: "int", ival: n, sval: t}
	case floatRe.MatchString(t):
		f, _ := strconv.ParseFloat(t, 64)
		return typedTok{kind: "float", fval: f, sval: t}
	case strings.ContainsAny(t, "*?"):
		return typedTok{kind: "wild", sval: t}
	}
	return typedTok{kind: "word", sval: strings.ReplaceAll(t, `\`, "")}
}

type deriver struct {
	toks  []string
	typed []typedTok
	df    string
	memo  map[dkey]bool
}

type dkey struct {
	e    *expr.Expression
	i, j int
}

func newDeriver(toks []string, df string) *deriver {
	d := &deriver{toks: toks, df: df, memo: map[dkey]bool{}}
	for _, t := range toks {
		d.typed = append(d.typed, typeTok(t))
	}
	return d
}

// leafMatches: the leaf expression is exactly the typed value of term token k.
func (d *deriver) leafMatches(e *expr.Expression, k int) bool {
	if e == nil || e.Right != nil {
		return false
	}
	t := d.typed[k]
	switch t.kind {
	case "int":
		v, ok := e.Left.(int)
		return ok && e.Op == expr.Literal && v == t.ival
	case "float":
		v, ok := e.Left.(float64)
		return ok && e.Op == expr.Literal && v == t.fval
	case "quoted", "word":
		v, ok := e.Left.(string)
		return ok && e.Op == expr.Literal && v == t.sval
	case "wild":
		v, ok := e.Left.(string)
		return ok && e.Op == expr.Wild && v == t.sval
	case "regexp":
		v, ok := e.Left.(string)
		return ok && e.Op == expr.Regexp && v == t.sval
	}
	return false
}

// fieldMatches: the field position of a fielded node is term token k (strings become columns).
func (d *deriver) fieldMatches(v any, k int) bool {
	e, ok := v.(*expr.Expression)
	if !ok || e == nil || e.Right != nil || (e.Op != expr.Literal && e.Op != expr.Wild && e.Op != expr.Regexp) {
		return false
	}
	t := d.typed[k]
	switch x := e.Left.(type) {
	case expr.Column:
		return t.kind != "" && t.kind != "int" && t.kind != "float" && string(x) == t.sval
	case string:
		return t.kind != "" && x == t.sval
	case int:
		return t.kind == "int" && x == t.ival
	case float64:
		return t.kind == "float" && x == t.fval
	}
	return false
}

// fieldSpan: the field position laid over tokens [i,k): one term token, possibly inside
// redundant parentheses (the code's own grammar comment reads E:E with (E) an E).
func (d *deriver) fieldSpan(v any, i, k int) bool {
	for k-i >= 3 && d.toks[i] == "(" && d.toks[k-1] == ")" {
		i, k = i+1, k-1
	}
	return k-i == 1 && d.fieldMatches(v, i)
}

// termSpan: a leaf laid over tokens [a,b): one term token, possibly inside redundant parentheses.
func (d *deriver) termSpan(e *expr.Expression, a, b int) bool {
	for b-a >= 3 && d.toks[a] == "(" && d.toks[b-1] == ")" {
		a, b = a+1, b-1
	}
	return b-a == 1 && d.leafMatches(e, a)
}

// argSpan: a distance / power laid over tokens [a,b): one number, possibly parenthesised.
func (d *deriver) argSpan(e *expr.Expression, a, b int) bool {
	for b-a >= 3 && d.toks[a] == "(" && d.toks[b-1] == ")" {
		a, b = a+1, b-1
	}
	return b-a == 1 && d.argMatches(e, a)
}

func (d *deriver) isDefaultCol(v any) bool {
	e, ok := v.(*expr.Expression)
	if !ok || e == nil || e.Op != expr.Literal || e.Right != nil {
		return false
	}
	c, ok := e.Left.(expr.Column)
	return ok && d.df != "" && string(c) == d.df
}

func (d *deriver) sub(v any, i, j int) bool {
	e, ok := v.(*expr.Expression)
	if !ok || e == nil {
		return false
	}
	return d.derives(e, i, j)
}

func (d *deriver) derives(e *expr.Expression, i, j int) bool {
	if e == nil || j <= i {
		return false
	}
	k := dkey{e, i, j}
	if v, ok := d.memo[k]; ok {
		return v
	}
	d.memo[k] = false // cycle guard
	r := d.derives1(e, i, j)
	d.memo[k] = r
	return r
}

func (d *deriver) derives1(e *expr.Expression, i, j int) bool {
	T := d.toks
	// (E)
	if j-i >= 3 && T[i] == "(" && T[j-1] == ")" && d.derives(e, i+1, j-1) {
		return true
	}
	switch e.Op {
	case expr.Literal, expr.Wild, expr.Regexp:
		return j-i == 1 && d.leafMatches(e, i)
	case expr.Equals, expr.Like:
		// default field: a bare term stands for f:term
		if d.isDefaultCol(e.Left) {
			if r, ok := e.Right.(*expr.Expression); ok && j-i == 1 && d.leafMatches(r, i) {
				if (e.Op == expr.Like) == (r.Op == expr.Wild || r.Op == expr.Regexp) {
					return true
				}
			}
		}
		if e.Op == expr.Like {
			r, ok := e.Right.(*expr.Expression)
			if !ok || (r.Op != expr.Wild && r.Op != expr.Regexp) {
				return false
			}
		}
		for k := i + 1; k < j-1; k++ {
			if (T[k] == ":" || T[k] == "=") && d.fieldSpan(e.Left, i, k) && d.sub(e.Right, k+1, j) {
				return true
			}
		}
		return false
	case expr.Greater, expr.Less, expr.GreaterEq, expr.LessEq:
		want := ">"
		if e.Op == expr.Less || e.Op == expr.LessEq {
			want = "<"
		}
		eq := e.Op == expr.GreaterEq || e.Op == expr.LessEq
		for k := i + 1; k < j-2; k++ {
			if T[k] != ":" || T[k+1] != want || !d.fieldSpan(e.Left, i, k) {
				continue
			}
			if !eq && d.sub(e.Right, k+2, j) {
				return true
			}
			if eq && k+2 < j-1 && T[k+2] == "=" && d.sub(e.Right, k+3, j) {
				return true
			}
		}
		return false
	case expr.Range:
		b, ok := e.Right.(*expr.RangeBoundary)
		if !ok || b == nil || j-i < 7 {
			return false
		}
		cl := T[j-1]
		if cl != "]" && cl != "}" {
			return false
		}
		lo, ok1 := b.Min.(*expr.Expression)
		hi, ok2 := b.Max.(*expr.Expression)
		if !ok1 || !ok2 {
			return false
		}
		// f : [ lo TO hi ]  — each bound a single term, possibly inside redundant parentheses (the
		// code's grammar comment reads (E) as an E)
		for o := i + 2; o < j-4; o++ {
			open := T[o]
			if (open != "[" && open != "{") || T[o-1] != ":" || !d.fieldSpan(e.Left, i, o-1) {
				continue
			}
			if open == "[" && cl == "]" && !b.Inclusive {
				continue
			}
			if open == "{" && cl == "}" && b.Inclusive {
				continue
			}
			for k := o + 2; k < j-2; k++ {
				if T[k] == "TO" && d.termSpan(lo, o+1, k) && d.termSpan(hi, k+1, j-1) {
					return true
				}
			}
		}
		return false
	case expr.In:
		r, ok := e.Right.(*expr.Expression)
		if !ok || r == nil || r.Op != expr.List || j-i < 5 {
			return false
		}
		items, ok := r.Left.([]*expr.Expression)
		if !ok || len(items) < 2 {
			return false
		}
		for k := i + 1; k < j-3; k++ {
			// the value must be a parenthesised group
			if (T[k] == ":" || T[k] == "=") && T[k+1] == "(" && T[j-1] == ")" && d.fieldSpan(e.Left, i, k) && d.list(items, k+1, j) {
				return true
			}
		}
		return false
	case expr.Not:
		return T[i] == "NOT" && e.Right == nil && d.sub(e.Left, i+1, j)
	case expr.Must:
		return T[i] == "+" && e.Right == nil && d.sub(e.Left, i+1, j)
	case expr.MustNot:
		return T[i] == "-" && e.Right == nil && d.sub(e.Left, i+1, j)
	case expr.Fuzzy, expr.Boost:
		if e.Right != nil {
			return false
		}
		op := "~"
		if e.Op == expr.Boost {
			op = "^"
		}
		// E op
		if T[j-1] == op && d.argDefault(e) && d.sub(e.Left, i, j-1) {
			return true
		}
		// E op n   and the lenient   E op ( n )
		for k := i + 1; k < j-1; k++ {
			if T[k] == op && d.argSpan(e, k+1, j) && d.sub(e.Left, i, k) {
				return true
			}
		}
		return false
	case expr.And:
		for k := i + 1; k < j; k++ {
			if T[k] == "AND" && d.sub(e.Left, i, k) && d.sub(e.Right, k+1, j) {
				return true
			}
			if d.sub(e.Left, i, k) && d.sub(e.Right, k, j) { // juxtaposition
				return true
			}
		}
		return false
	case expr.Or:
		for k := i + 1; k < j-1; k++ {
			if T[k] == "OR" && d.sub(e.Left, i, k) && d.sub(e.Right, k+1, j) {
				return true
			}
		}
		return false
	}
	return false
}

// fuzzyBoostArg reads the (unexported) distance / power through the public JSON encoding, which
// omits them exactly when they are the default 1.
func fuzzyBoostArg(e *expr.Expression) (float64, bool) {
	b, err := json.Marshal(e)
	if err != nil {
		return 0, false
	}
	var aux struct {
		Distance *int     `json:"distance"`
		Power    *float64 `json:"power"`
	}
	if err := json.Unmarshal(b, &aux); err != nil {
		return 0, false
	}
	if e.Op == expr.Fuzzy {
		if aux.Distance == nil {
			return 1, true
		}
		return float64(*aux.Distance), true
	}
	if aux.Power == nil {
		return 1, true
	}
	return *aux.Power, true
}

func (d *deriver) argDefault(e *expr.Expression) bool {
	v, ok := fuzzyBoostArg(e)
	return ok && v == 1
}

func (d *deriver) argMatches(e *expr.Expression, k int) bool {
	v, ok := fuzzyBoostArg(e)
	if !ok {
		return false
	}
	t := d.typed[k]
	switch t.kind {
	case "int":
		return float64(t.ival) == v
	case "float":
		return e.Op == expr.Boost && t.fval == v
	}
	return false
}

// list: items laid over a parenthesised OR-chain of plain terms (inner grouping allowed).
func (d *deriver) list(items []*expr.Expression, i, j int) bool {
	T := d.toks
	if len(items) == 0 || j <= i {
		return false
	}
	if j-i >= 3 && T[i] == "(" && T[j-1] == ")" && d.list(items, i+1, j-1) {
		return true
	}
	if len(items) == 1 {
		return j-i == 1 && items[0] != nil && items[0].Op == expr.Literal && d.leafMatches(items[0], i)
	}
	for k := i + 1; k < j-1; k++ {
		if T[k] != "OR" {
			continue
		}
		for m := 1; m < len(items); m++ {
			if d.list(items[:m], i, k) && d.list(items[m:], k+1, j) {
				return true
			}
		}
	}
	return false
}

// accounting: a cheap necessary condition that also names what is off (used as the observation
// class so that minimisation stays on one kind of discrepancy).
func accounting(e *expr.Expression, toks []string, df string) string {
	tokCount := map[string]int{}
	for _, t := range toks {
		switch {
		case isTermTok(t):
			tokCount["term"]++
		case t == "(" || t == ")":
			// grouping only
		case t == "=":
			tokCount[":"]++
		default:
			tokCount[t]++
		}
	}
	nodeCount := map[string]int{}
	var walk func(v any)
	walk = func(v any) {
		switch x := v.(type) {
		case *expr.Expression:
			if x == nil {
				return
			}
			switch x.Op {
			case expr.Literal, expr.Wild, expr.Regexp:
				if c, ok := x.Left.(expr.Column); ok && df != "" && string(c) == df {
					nodeCount["dfcol"]++
				} else {
					nodeCount["term"]++
				}
				return
			case expr.Equals, expr.Like, expr.In:
				isDF := false
				if l, ok := x.Left.(*expr.Expression); ok && l != nil {
					if c, ok := l.Left.(expr.Column); ok && df != "" && string(c) == df {
						isDF = true
					}
				}
				if !isDF {
					nodeCount[":"]++
				}
			case expr.Greater:
				nodeCount[":"]++
				nodeCount[">"]++
			case expr.Less:
				nodeCount[":"]++
				nodeCount["<"]++
			case expr.GreaterEq:
				nodeCount[":"] += 2
				nodeCount[">"]++
			case expr.LessEq:
				nodeCount[":"] += 2
				nodeCount["<"]++
			case expr.Range:
				nodeCount[":"]++
				nodeCount["TO"]++
				nodeCount["open"]++
				nodeCount["close"]++
			case expr.Not:
				nodeCount["NOT"]++
			case expr.Must:
				nodeCount["+"]++
			case expr.MustNot:
				nodeCount["-"]++
			case expr.Fuzzy:
				nodeCount["~"]++
			case expr.Boost:
				nodeCount["^"]++
			case expr.And:
				nodeCount["AND?"]++
			case expr.Or:
				nodeCount["OR"]++
			case expr.List:
				items, _ := x.Left.([]*expr.Expression)
				for _, it := range items {
					walk(it)
				}
				nodeCount["OR"] += len(items) - 1
				return
			}
			walk(x.Left)
			walk(x.Right)
		case *expr.RangeBoundary:
			if x != nil {
				walk(x.Min)
				walk(x.Max)
			}
		}
	}
	walk(e)
	tokCount["open"] = tokCount["["] + tokCount["{"]
	tokCount["close"] = tokCount["]"] + tokCount["}"]
	delete(tokCount, "[")
	delete(tokCount, "{")
	delete(tokCount, "]")
	delete(tokCount, "}")
	var diffs []string
	keys := map[string]bool{}
	for k := range tokCount {
		keys[k] = true
	}
	for k := range nodeCount {
		keys[k] = true
	}
	for k := range keys {
		tc, nc := tokCount[k], nodeCount[k]
		switch k {
		case "AND?":
			continue
		case "AND":
			if tc > nodeCount["AND?"] {
				diffs = append(diffs, "AND-token-unconsumed")
			}
			continue
		case "dfcol":
			continue
		case "term":
			// fuzzy/boost arguments are term tokens without a leaf; default-field wrapping adds none
			extra := nodeCount["~"] + nodeCount["^"]
			if nc > tc {
				diffs = append(diffs, "leaf-without-token")
			} else if tc > nc+extra {
				diffs = append(diffs, "term-token-dropped")
			}
			continue
		}
		if tc > nc {
			diffs = append(diffs, k+"-token-unconsumed")
		} else if nc > tc {
			diffs = append(diffs, k+"-node-without-token")
		}
	}
	sort.Strings(diffs)
	return strings.Join(diffs, ",")
}

func c06Eval(c core.Case) (res core.Result) {
	in := string(c.In)
	e, err, pi := parse(in, c.DF)
	if pi != nil {
		res.Tags = append(res.Tags, "skipped_upstream_panic")
		return
	}
	if err != nil || e == nil {
		return
	}
	res.Nontrivial = true
	res.Hash = treeHash(e)
	toks := splitTokens(in)
	var ok bool
	var acc string
	if pi := core.Safe(func() {
		d := newDeriver(toks, string(c.DF))
		ok = d.derives(e, 0, len(toks))
		if !ok {
			acc = accounting(e, toks, string(c.DF))
		}
	}); pi != nil {
		// String() on a tree the parser returned panicked: C01's business
		res.Tags = append(res.Tags, "skipped_upstream_panic")
		return
	}
	if !ok {
		class := "structure"
		if acc != "" {
			class = "accounting:" + acc
		}
		res.Obs = append(res.Obs, core.Obs{Clause: "derivation", Class: class,
			Observed: "accepted as " + gostr(e), Expected: "a tree that is a derivation of the token sequence (or a parse error)"})
	}
	return
}
