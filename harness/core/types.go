// Package core holds the check-independent part of the harness: case and violation records,
// the per-process worker (evaluation, minimisation, counting), the coordinator that shards an
// enumeration over worker processes, the findings ledger and the evidence writer.
package core

import (
	"encoding/base64"
	"encoding/json"
	"fmt"
	"hash/fnv"
	"strconv"
	"strings"
	"unicode/utf8"
)

// BStr is a byte string that survives JSON: printable valid UTF-8 is written as "s:<text>",
// everything else as "b:<base64>".
type BStr string

func (b BStr) MarshalJSON() ([]byte, error) {
	s := string(b)
	ok := utf8.ValidString(s)
	if ok {
		for _, r := range s {
			if r < 0x20 || r == 0x7f || r == utf8.RuneError {
				ok = false
				break
			}
		}
	}
	if ok {
		return json.Marshal("s:" + s)
	}
	return json.Marshal("b:" + base64.StdEncoding.EncodeToString([]byte(s)))
}

func (b *BStr) UnmarshalJSON(data []byte) error {
	var s string
	if err := json.Unmarshal(data, &s); err != nil {
		return err
	}
	switch {
	case strings.HasPrefix(s, "s:"):
		*b = BStr(s[2:])
	case strings.HasPrefix(s, "b:"):
		raw, err := base64.StdEncoding.DecodeString(s[2:])
		if err != nil {
			return err
		}
		*b = BStr(raw)
	default:
		*b = BStr(s)
	}
	return nil
}

// Case is one point of an enumeration: what is handed to a check's oracle. The meaning of the
// fields is per check (documented next to each check's Eval); every case is self-contained so
// that it can be replayed alone in a fresh process.
type Case struct {
	Kind string `json:"kind"`          // sub-space / clause family within the check
	In   BStr   `json:"in"`            // main input (query text, JSON document, ...)
	In2  BStr   `json:"in2,omitempty"` // second input (variant text, explicit-AND text, ...)
	DF   BStr   `json:"df,omitempty"`  // default field; "" = option not given
	Aux  BStr   `json:"aux,omitempty"` // check-specific (op sequence, schedule, slot, ...)
	// Tree: harness AST (JSON) the texts were printed from, for tree-based checks. Not part of
	// String()/signature: the printed text identifies the case.
	Tree string `json:"tree,omitempty"`
}

func (c Case) String() string {
	var sb strings.Builder
	sb.WriteString(c.Kind)
	sb.WriteString(" in=")
	sb.WriteString(strconv.Quote(string(c.In)))
	if c.In2 != "" {
		sb.WriteString(" in2=")
		sb.WriteString(strconv.Quote(string(c.In2)))
	}
	if c.DF != "" {
		sb.WriteString(" df=")
		sb.WriteString(strconv.Quote(string(c.DF)))
	}
	if c.Aux != "" {
		sb.WriteString(" aux=")
		sb.WriteString(strconv.Quote(string(c.Aux)))
	}
	return sb.String()
}

// Obs is one violation observed on one case.
type Obs struct {
	Clause   string `json:"clause"`   // which clause of the property
	Class    string `json:"class"`    // abstracted observation (used for minimisation + signature)
	Observed string `json:"observed"` // concrete observation
	Expected string `json:"expected,omitempty"`
}

// Result is what a check's oracle returns for one case.
type Result struct {
	Obs        []Obs
	Nontrivial bool   // e.g. Parse accepted the input
	Hash       uint64 // identity of the non-trivial outcome (distinct tree / SQL / ...); 0 = none
	Tags       []string
	Extra      int64 // further states explored inside this case (op sequences, variants, ...)
}

// Violation is an Obs attached to its case and to the minimised case it was attributed to.
type Violation struct {
	Property string `json:"property"`
	Obs
	Case    Case   `json:"case"`
	Min     Case   `json:"min"`
	MinObs  string `json:"min_observed"`
	MinExp  string `json:"min_expected,omitempty"`
	Sig     string `json:"sig"`
	Count   int64  `json:"count"` // how many enumerated cases were attributed to this signature
	Shrinks int    `json:"shrinks"`
	Unit    string `json:"unit,omitempty"` // the unit whose enumeration reached the case (history replay)
}

// Signature of a minimised violation.
func Signature(clause, class string, min Case) string {
	return clause + " | " + class + " | " + min.String()
}

func Hash64(parts ...string) uint64 {
	h := fnv.New64a()
	for _, p := range parts {
		h.Write([]byte(p))
		h.Write([]byte{0})
	}
	v := h.Sum64()
	if v == 0 {
		v = 1
	}
	return v
}

// PanicInfo describes a recovered panic without line numbers: message + innermost go-lucene frame.
type PanicInfo struct {
	Msg   string
	Where string
}

func (p *PanicInfo) String() string {
	if p == nil {
		return ""
	}
	return fmt.Sprintf("panic %q in %s", p.Msg, p.Where)
}
