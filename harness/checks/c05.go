package checks

import (
	"fmt"
	"strconv"
	"strings"

	"github.com/grindlemire/go-lucene/verif/core"
	"github.com/grindlemire/go-lucene/verif/qast"
)

// C05 — operator precedence, associativity and grouping follow the documented table.
//
// Case: Kind "min" | "extra" | "full"; In = text printed from Tree by the stratified printer
// (minimal parentheses / one redundant pair at preorder node Aux / fully parenthesised);
// Tree = harness AST. Oracle: Parse(In) succeeds and is DeepEqual to the tree built from the AST
// through the public constructors.

// c05Extras: value groups in every grouping (the OR-chain of plain values is a value list however
// it is parenthesised) and leaves whose quoted / regexp text contains brackets.
func c05Extras() []*qast.Node {
	T := func(s string) *qast.Node { return qast.Lf(qast.Leaf{Kind: qast.LTerm, Val: qast.W(s)}) }
	G := func(sub *qast.Node) *qast.Node { return qast.Lf(qast.Leaf{Kind: qast.LGroup, Field: "f", Sub: sub}) }
	or := func(a, b *qast.Node) *qast.Node { return qast.Bin(qast.OOr, a, b) }
	return []*qast.Node{
		G(or(T("x"), or(T("y"), T("z")))),
		G(or(or(T("x"), T("y")), T("z"))),
		G(or(or(T("x"), T("y")), or(T("z"), T("u")))),
		G(qast.Bin(qast.OAnd, T("x"), or(T("y"), T("z")))),
		qast.Lf(qast.Leaf{Kind: qast.LEq, Field: "f", Val: qast.Q("(x")}),
		qast.Lf(qast.Leaf{Kind: qast.LEq, Field: "f", Val: qast.Q(":)")}),
		qast.Lf(qast.Leaf{Kind: qast.LEq, Field: "f", Val: qast.Q("[1 TO")}),
		qast.Lf(qast.Leaf{Kind: qast.LEq, Field: "f", Val: qast.Re("/[(]x/")}),
		qast.Lf(qast.Leaf{Kind: qast.LTerm, Val: qast.Q("a) OR (b")}),
		qast.Lf(qast.Leaf{Kind: qast.LEq, Field: "f", Val: qast.I("010")}),
	}
}

func init() {
	treeSetsExtra["c05x0"] = c05Extras
	core.Register(&core.Check{
		ID:    "C05",
		Title: "Operator precedence, associativity and grouping follow the documented table",
		Units: func(tier string) []core.Unit {
			var us []core.Unit
			add := func(names []string, w int) {
				for _, n := range names {
					us = append(us, core.Unit{Name: n, Weight: w})
				}
			}
			// T(L_full,2), minimal printing
			add(qast.TreeUnits("tree|full|2|min", len(treeSet("full1")), 40), 3)
			// variants on T(L_full,1) and T(L_small6,2)
			add(qast.TreeUnits("tree|full|1|var", len(treeSet("full0")), 1), 1)
			add(qast.TreeUnits("tree|c05x|1|var", len(treeSet("c05x0")), 1), 1)
			add(qast.TreeUnits("tree|small6|2|var", len(treeSet("small1")), 8), 2)
			add([]string{"args", "wide"}, 2)
			if tier == "thorough" {
				add(qast.TreeUnits("tree|three|3|min", len(treeSet("three2")), 120), 5)
				add(qast.TreeUnits("tree|two|3|var", len(treeSet("two2")), 64), 4)
				add([]string{"chain|5", "spine|5"}, 4)
			} else {
				add([]string{"chain|4", "spine|4"}, 2)
			}
			return us
		},
		Run:    c05Run,
		Eval:   c05Eval,
		Shrink: c05Shrink,
		Rule: "TREE(L_full,2) printed minimally; TREE(L_full,1) ∪ TREE(L_small,2) also with one redundant pair of parentheses at each node in turn, fully parenthesised, and written compactly (no space next to a symbol token); " +
			"left-associative chains of 6..100 copies of every leaf; TREE(L_4,2) with ^ and ~ carrying 11 numeric argument spellings; CHAIN(k) over every leaf; SPINE(m) over 2 leaves; thorough adds TREE(L_3,3) and variants on TREE(L_2,3). " +
			"non-trivial = Parse accepted the printed text; distinct = distinct accepted trees",
		Assumptions: []string{
			"the printer parenthesises wherever the documented table leaves a grouping open, so only groupings the table fixes are demanded",
			"general trees deeper than 3 are not covered (chains to depth 5 and binary spines to 5 leaves are)",
		},
		Bounds: func(tier string) map[string]any {
			if tier == "thorough" {
				return map[string]any{"tree_full_depth": 2, "tree_3leaf_depth": 3, "chain": 5, "spine": 5}
			}
			return map[string]any{"tree_full_depth": 2, "chain": 4, "spine": 4}
		},
		Deadline: func(tier string) int {
			if tier == "thorough" {
				return 1000
			}
			return 300
		},
	})
}

// compactText joins tokens without any space wherever one of the neighbours is a symbol token
// (which can never fuse with its neighbour), with a single space elsewhere: `+a:5^2`.
func compactText(toks []string) string {
	var sb strings.Builder
	for i, t := range toks {
		if i > 0 && !(isSym(toks[i-1]) || isSym(t)) {
			sb.WriteByte(' ')
		}
		sb.WriteString(t)
	}
	return sb.String()
}

// treeUnitSets resolves the leaf set / sub-tree set named in a tree unit.
func treeUnitSets(unit string) (leaves, sub []*qast.Node) {
	p := strings.Split(unit, "|")
	switch p[1] + "|" + p[2] {
	case "full|2":
		return treeSet("full0"), treeSet("full1")
	case "full|1":
		return treeSet("full0"), treeSet("full0")
	case "c11x|1":
		return treeSet("c11x0"), treeSet("c11x0")
	case "c05x|1":
		return treeSet("c05x0"), treeSet("c05x0")
	case "small6|2":
		return qast.LeavesSmall(6), treeSet("small1")
	case "three|3":
		return qast.LeavesSmall(3), treeSet("three2")
	case "two|3":
		return qast.LeavesSmall(2), treeSet("two2")
	}
	panic("bad tree unit " + unit)
}

// stripTreeUnit turns "tree|set|d|mode|rest..." into the form qast.EnumTreeUnit expects
// ("prefix|leafun" / "prefix|bin|op|lo|hi").
func stripTreeUnit(unit string) (mode string, enumUnit string) {
	p := strings.Split(unit, "|")
	return p[3], "t|" + strings.Join(p[4:], "|")
}

func c05Run(w *core.Worker, tier, unit string) {
	do := func(t *qast.Node, variants bool) {
		enc := qast.Encode(t)
		w.Do(core.Case{Kind: "min", In: core.BStr(qast.Text(t, nil)), Tree: enc})
		if !variants {
			return
		}
		w.Do(core.Case{Kind: "full", In: core.BStr(qast.Text(t, &qast.PrintOpts{Full: true})), Tree: enc})
		w.Do(core.Case{Kind: "compact", In: core.BStr(compactText(qast.Tokens(t, nil))), Tree: enc})
		idx := 0
		qast.Walk(t, func(n *qast.Node) {
			w.Do(core.Case{Kind: "extra", In: core.BStr(qast.Text(t, &qast.PrintOpts{Extra: map[*qast.Node]bool{n: true}})),
				Aux: core.BStr(strconv.Itoa(idx)), Tree: enc})
			idx++
		})
	}
	switch {
	case strings.HasPrefix(unit, "tree|"):
		leaves, sub := treeUnitSets(unit)
		mode, eu := stripTreeUnit(unit)
		qast.EnumTreeUnit(eu, leaves, sub, func(t *qast.Node) { do(t, mode == "var") })
	case unit == "wide":
		// long flat chains: n operands of one kind joined by one binary operator without parentheses
		// (left-associative), n beyond any small fixed limit a parser may carry
		for _, l := range qast.LeavesFull() {
			for _, op := range qast.BinaryOps {
				for _, n := range []int{6, 11, 12, 33, 100} {
					t := l
					for i := 1; i < n; i++ {
						t = qast.Bin(op, t, l)
					}
					do(t, false)
				}
			}
		}
	case unit == "args":
		// the numeric argument of ^ and ~ in every spelling (several decimals, below 0.05, two
		// digits, trailing zero), under and over the other unary operators
		leaves := append(qast.LeavesSmall(3), qast.Lf(qast.Leaf{Kind: qast.LTerm, Val: qast.Q("q r")}))
		for _, t := range qast.AllTreesU(leaves, c05ArgForms, 2) {
			do(t, true)
		}
	case strings.HasPrefix(unit, "chain|"):
		k, _ := strconv.Atoi(strings.Split(unit, "|")[1])
		for _, l := range qast.LeavesFull() {
			qast.Chains(l, k, func(t *qast.Node) { do(t, false) })
		}
	case strings.HasPrefix(unit, "spine|"):
		m, _ := strconv.Atoi(strings.Split(unit, "|")[1])
		for i := 1; i <= m; i++ {
			qast.Spines(qast.LeavesSmall(2), i, func(t *qast.Node) { do(t, i <= 4) })
		}
	default:
		panic("bad unit " + unit)
	}
}

var c05ArgForms = []qast.UForm{
	{Op: qast.ONot}, {Op: qast.OMust}, {Op: qast.OMustN},
	{Op: qast.OBoost, Arg: "1.25"}, {Op: qast.OBoost, Arg: "2.75"}, {Op: qast.OBoost, Arg: "0.04"}, {Op: qast.OBoost, Arg: "10"},
	{Op: qast.OBoost, Arg: "0.5"}, {Op: qast.OBoost, Arg: "3.0"}, {Op: qast.OBoost, Arg: "100.125"},
	{Op: qast.OFuzzy, Arg: "0"}, {Op: qast.OFuzzy, Arg: "1"}, {Op: qast.OFuzzy, Arg: "10"}, {Op: qast.OFuzzy, Arg: "25"},
}

func c05Eval(c core.Case) (res core.Result) {
	t, err := qast.Decode(c.Tree)
	if err != nil {
		panic("C05: bad tree in case: " + err.Error())
	}
	want := qast.Build(t)
	got, perr, pi := parse(string(c.In), "")
	if pi != nil {
		res.Tags = append(res.Tags, "skipped_upstream_panic")
		return
	}
	if perr != nil || got == nil {
		res.Obs = append(res.Obs, core.Obs{Clause: "roundtrip/" + c.Kind, Class: "rejected",
			Observed: fmt.Sprintf("Parse error: %v", perr), Expected: gostr(want)})
		return
	}
	res.Nontrivial = true
	res.Hash = treeHash(got)
	if !deepEqual(got, want) {
		res.Obs = append(res.Obs, core.Obs{Clause: "roundtrip/" + c.Kind, Class: "different-tree",
			Observed: gostr(got), Expected: gostr(want)})
	}
	return
}

// c05Shrink: replace a subtree by the leaf `a`, hoist a child over its parent, simplify leaves;
// the text is re-printed in the case's own mode.
func c05Shrink(c core.Case) []core.Case {
	t, err := qast.Decode(c.Tree)
	if err != nil {
		return nil
	}
	var out []core.Case
	for _, s := range shrinkTrees(t) {
		d := c
		d.Tree = qast.Encode(s)
		switch c.Kind {
		case "full":
			d.In = core.BStr(qast.Text(s, &qast.PrintOpts{Full: true}))
		case "compact":
			d.In = core.BStr(compactText(qast.Tokens(s, nil)))
		case "extra":
			// keep the redundant pair on the node with the same preorder index if it still exists
			idx, _ := strconv.Atoi(string(c.Aux))
			var target *qast.Node
			i := 0
			qast.Walk(s, func(n *qast.Node) {
				if i == idx {
					target = n
				}
				i++
			})
			if target == nil {
				continue
			}
			d.In = core.BStr(qast.Text(s, &qast.PrintOpts{Extra: map[*qast.Node]bool{target: true}}))
		default:
			d.In = core.BStr(qast.Text(s, nil))
		}
		out = append(out, d)
	}
	// an "extra" case may also shrink by moving the pair to the root
	return out
}

var leafA = qast.Lf(qast.Leaf{Kind: qast.LTerm, Val: qast.W("a")})

// shrinkTrees proposes smaller trees: (1) each child hoisted to the root, (2) each non-leaf
// subtree replaced by the leaf a, (3) each child hoisted over its parent in place, (4) each
// non-`a` leaf replaced by a, (5) numeric arguments dropped.
func shrinkTrees(t *qast.Node) []*qast.Node { return shrinkTreesWith(t, leafA) }

// shrinkTreesWith is shrinkTrees with a caller-chosen simplest leaf.
func shrinkTreesWith(t *qast.Node, leafA *qast.Node) []*qast.Node {
	simplest := qast.Describe(leafA)
	var out []*qast.Node
	if t.L != nil {
		out = append(out, t.L)
	}
	if t.R != nil {
		out = append(out, t.R)
	}
	// in-place replacements, by preorder index
	n := qast.Size(t)
	for i := 0; i < n; i++ {
		for mode := 0; mode < 5; mode++ {
			c := qast.Clone(t)
			k := 0
			changed := false
			var rec func(p **qast.Node)
			rec = func(p **qast.Node) {
				if *p == nil || changed {
					return
				}
				if k == i {
					k++
					x := *p
					switch mode {
					case 0:
						if x.Op != qast.OLeaf {
							*p = leafA
							changed = true
						}
					case 1:
						if x.L != nil && i > 0 {
							*p = x.L
							changed = true
						}
					case 2:
						if x.R != nil && i > 0 {
							*p = x.R
							changed = true
						}
					case 3:
						if x.Op == qast.OLeaf && qast.Describe(x) != simplest {
							*p = leafA
							changed = true
						}
					case 4:
						if x.Arg != "" {
							y := *x
							y.Arg = ""
							*p = &y
							changed = true
						}
					}
					return
				}
				k++
				rec(&(*p).L)
				rec(&(*p).R)
			}
			rec(&c)
			if changed {
				out = append(out, c)
			}
		}
	}
	return out
}
