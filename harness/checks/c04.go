//go:build !instr

package checks

import (
	"fmt"
	"math/big"
	"strconv"
	"strings"

	lucene "github.com/grindlemire/go-lucene"
	"github.com/grindlemire/go-lucene/verif/core"
	"github.com/grindlemire/go-lucene/verif/enum"
	"github.com/grindlemire/go-lucene/verif/qast"
	"github.com/grindlemire/go-lucene/verif/sqlref"
)

// C04 — parameterised SQL agrees with inline SQL; all values travel as parameters.
//
// Case kinds:
//   "q": In = query text, DF, Tree (optional: the generator's AST, which knows the value list).
//       Whenever ToPostgres succeeds: ToParameterizedPostgres succeeds (succeeds); the number of
//       ? outside quotes equals len(params) (count); parameters are int / float64 / string (kinds)
//       and — when the AST is known — equal the query's values left to right with patterns
//       translated and open bounds absent (params); the rebound SQL is read by PostgreSQL's
//       grammar (parses); with the parameters substituted it evaluates like the inline SQL on
//       every probe row (equiv).
//   "subst": In / In2 = two queries differing in one value slot by a value of the same kind;
//       the parameterised SQL text must be identical (stable).

func leavesC04() []*qast.Node {
	ls := leavesC03()
	// mixed int / decimal ranges (outside C03's quantifier, inside C04's: any renderable query)
	for _, incl := range []bool{true, false} {
		ls = append(ls, qast.Lf(qast.Leaf{Kind: qast.LRange, Field: "n", Lo: qast.I("1"), Hi: qast.F("2.5"), Incl: incl}))
		ls = append(ls, qast.Lf(qast.Leaf{Kind: qast.LRange, Field: "n", Lo: qast.F("0.5"), Hi: qast.I("3"), Incl: incl}))
	}
	// integer-valued decimals (kind float64 must survive) and a float beyond int64
	for _, v := range []string{"5.0", "1e3", "1e20"} {
		ls = append(ls, qast.Lf(qast.Leaf{Kind: qast.LEq, Field: "n", Val: qast.F(v)}))
	}
	ls = append(ls, qast.Lf(qast.Leaf{Kind: qast.LGe, Field: "n", Val: qast.F("7.0")}))
	ls = append(ls, qast.Lf(qast.Leaf{Kind: qast.LRange, Field: "n", Lo: qast.F("1.0"), Hi: qast.F("2.5"), Incl: true}))
	ls = append(ls, qast.Lf(qast.Leaf{Kind: qast.LList, Field: "n", List: []qast.Value{qast.F("2.0"), qast.I("3")}}))
	// a value repeated inside one list (every occurrence is a value and a parameter)
	ls = append(ls, qast.Lf(qast.Leaf{Kind: qast.LList, Field: "n", List: []qast.Value{qast.I("1"), qast.I("2"), qast.I("1")}}))
	ls = append(ls, qast.Lf(qast.Leaf{Kind: qast.LList, Field: "s", List: []qast.Value{qast.W("x"), qast.W("y"), qast.W("x"), qast.W("x")}}))
	// patterns touching the regexp delimiters
	for _, p := range []string{`b*\/`, `\/b*`, `\/b?\/c`, `a\/*\/`} {
		ls = append(ls, qast.Lf(qast.Leaf{Kind: qast.LEq, Field: "s", Val: qast.Wi(p)}))
	}
	// patterns containing the SQL string delimiter
	ls = append(ls, qast.Lf(qast.Leaf{Kind: qast.LEq, Field: "s", Val: qast.Re("/it's/")}))
	ls = append(ls, qast.Lf(qast.Leaf{Kind: qast.LEq, Field: "s", Val: qast.Wi(`b\'c*`)}))
	ls = append(ls, qast.Lf(qast.Leaf{Kind: qast.LEq, Field: "s", Val: qast.Q("*")}))
	ls = append(ls, qast.Lf(qast.Leaf{Kind: qast.LEq, Field: "s", Val: qast.Q("a?")}))
	for _, re := range []string{"/b/", "/ab/", "/abc/", "/a*/"} {
		ls = append(ls, qast.Lf(qast.Leaf{Kind: qast.LEq, Field: "s", Val: qast.Re(re)}))
	}
	return ls
}

var c04FieldNames = []string{`a\?b`, `\?`, `a\ b`, "é", `a\$1`, `x\%s`, `a\'b`, `\?\?`}

var substAlternatives = map[string][]qast.Value{
	qast.VInt:    {qast.I("0"), qast.I("5"), qast.I("-5"), qast.I("1099511627776")},
	qast.VFloat:  {qast.F("0.5"), qast.F("1.25")},
	qast.VWord:   {qast.W("a"), qast.W("zz")},
	qast.VQuoted: {qast.Q("q r"), qast.Q("it's")},
	qast.VWild:   {qast.Wi("w*"), qast.Wi("*"), qast.Wi("?"), qast.Wi("a?b")},
	qast.VRegexp: {qast.Re("/b/"), qast.Re("/ab/"), qast.Re("/abc/"), qast.Re("/a*/")},
}

func init() {
	treeSetsExtra["c04l"] = leavesC04
	core.Register(&core.Check{
		ID:    "C04",
		Title: "Parameterized SQL agrees with inline SQL; all values travel as parameters",
		Units: func(tier string) []core.Unit {
			var us []core.Unit
			add := func(names []string, w int) {
				for _, x := range names {
					us = append(us, core.Unit{Name: x, Weight: w})
				}
			}
			us = append(us, core.Unit{Name: "substleaves", Weight: 2})
			us = append(us, core.Unit{Name: "fields", Weight: 2})
			add(qast.TreeUnits("vals|c04l|c04l", len(treeSet("c04l")), 16), 3)
			add(qast.TreeUnits("tree|full|1|param", len(treeSet("full0")), 1), 1)
			add(qast.TreeUnits("tree|small6|2|param", len(treeSet("small1")), 8), 2)
			n := 4
			if tier == "thorough" {
				n = 5
				add(qast.TreeUnits("tree|full|2|param", len(treeSet("full1")), 80), 5)
				add(qast.TreeUnits("subst|c03s0|c03s1", len(treeSet("c03s1")), 8), 3)
			}
			for _, u := range enum.SeqUnits("tok", "full", len(enum.SigmaFull), n, 2) {
				us = append(us, core.Unit{Name: u})
			}
			return us
		},
		Run:    c04Run,
		Eval:   c04Eval,
		Shrink: c04Shrink,
		Rule: "every query over the C03 leaf alphabet extended with regexps of length 1-3 and one-character patterns at depth <= 1 (with the generator's value list), every tree of TREE(L_full,1) ∪ TREE(L_small,2) (thorough TREE(L_full,2)) and every accepted member of TOK(Σ_full,N), with and without default field; every leaf also under 8 field names and every TREE(L_full,0) text under 5 default-field names spelling ? $1 %s quote blank non-ASCII; " +
			"plus every same-kind substitution of one value slot (ints 0 5 -5 2^40, floats, words, phrases, patterns w* * ? a?b, regexps /b/ /ab/ /abc/ /a*/); non-trivial = renderable inline; distinct = distinct parameterised SQL texts; states count probe-row evaluations",
		Assumptions: []string{"equivalence is judged by evaluation over probe rows (as C03), not by text", "queries the inline renderer rejects are outside the quantifier"},
		Bounds: func(tier string) map[string]any {
			if tier == "thorough" {
				return map[string]any{"value_trees": "depth 1 over all leaves", "trees": "T(25,2)", "N_tok": 5, "substitution": "all leaves + depth-1 compounds over 6 leaves"}
			}
			return map[string]any{"value_trees": "depth 1 over all leaves", "trees": "T(25,1) ∪ T(6,2)", "N_tok": 4, "substitution": "all leaves"}
		},
		Deadline: func(tier string) int {
			if tier == "thorough" {
				return 1000
			}
			return 300
		},
	})
}

// leafSlots lists the value slots of a leaf as (getter, setter) pairs.
func leafSlots(l *qast.Leaf) []*qast.Value {
	var out []*qast.Value
	switch l.Kind {
	case qast.LRange:
		out = append(out, &l.Lo, &l.Hi)
	case qast.LList:
		for i := range l.List {
			out = append(out, &l.List[i])
		}
	default:
		out = append(out, &l.Val)
	}
	return out
}

func substCases(t *qast.Node, emit func(a, b string)) {
	base := qast.Text(t, &qast.PrintOpts{Full: true})
	// work on a deep copy whose leaves are private
	var leaves []*qast.Leaf
	c := qast.Clone(t)
	qast.Walk(c, func(n *qast.Node) {
		if n.Op == qast.OLeaf {
			l := *n.Leaf
			l.List = append([]qast.Value{}, n.Leaf.List...)
			n.Leaf = &l
			leaves = append(leaves, &l)
		}
	})
	for _, l := range leaves {
		for _, slot := range leafSlots(l) {
			orig := *slot
			for _, alt := range substAlternatives[orig.Kind] {
				if alt == orig {
					continue
				}
				*slot = alt
				emit(base, qast.Text(c, &qast.PrintOpts{Full: true}))
			}
			*slot = orig
		}
	}
}

func c04Run(w *core.Worker, tier, unit string) {
	p := strings.Split(unit, "|")
	switch p[0] {
	case "substleaves":
		for _, l := range treeSet("c04l") {
			substCases(l, func(a, b string) { w.Do(core.Case{Kind: "subst", In: core.BStr(a), In2: core.BStr(b)}) })
		}
	case "fields":
		// field names (and default-field names) made of the characters the SQL text gives a meaning:
		// the placeholder, quotes, a dollar parameter, a format verb, blanks, non-ASCII
		for _, l := range treeSet("c04l") {
			// a leaf that already fails under its plain field name is reported (or ledgered) there
			if base := c04Eval(core.Case{Kind: "q", In: core.BStr(qast.Text(l, &qast.PrintOpts{Full: true})), Tree: qast.Encode(l)}); len(base.Obs) > 0 {
				w.Count("fields_skipped_base_violates", 1)
				continue
			}
			for _, f := range c04FieldNames {
				lf := *l.Leaf
				lf.Field = f
				t := qast.Lf(lf)
				w.Do(core.Case{Kind: "q", In: core.BStr(qast.Text(t, &qast.PrintOpts{Full: true})), Tree: qast.Encode(t)})
			}
		}
		for _, t := range treeSet("full0") {
			for _, df := range []core.BStr{"w?", "a b", "$1", "%s", "é"} {
				w.Do(core.Case{Kind: "q", In: core.BStr(qast.Text(t, nil)), DF: df})
			}
		}
	case "subst":
		leaves, sub := treeSet(p[1]), treeSet(p[2])
		qast.EnumTreeUnitU("t|"+strings.Join(p[3:], "|"), leaves, sub, boolUnaries, func(t *qast.Node) {
			substCases(t, func(a, b string) { w.Do(core.Case{Kind: "subst", In: core.BStr(a), In2: core.BStr(b)}) })
		})
	case "vals":
		leaves, sub := treeSet(p[1]), treeSet(p[2])
		qast.EnumTreeUnitU("t|"+strings.Join(p[3:], "|"), leaves, sub, boolUnaries, func(t *qast.Node) {
			w.Do(core.Case{Kind: "q", In: core.BStr(qast.Text(t, &qast.PrintOpts{Full: true})), Tree: qast.Encode(t)})
		})
	case "tree":
		leaves, sub := treeUnitSets(unit)
		_, eu := stripTreeUnit(unit)
		qast.EnumTreeUnit(eu, leaves, sub, func(t *qast.Node) {
			txt := qast.Text(t, nil)
			w.Do(core.Case{Kind: "q", In: core.BStr(txt)})
			w.Do(core.Case{Kind: "q", In: core.BStr(txt), DF: "D"})
		})
	default:
		forEachFlat(unit, func(kind, text string) {
			w.Do(core.Case{Kind: "q", In: core.BStr(text)})
			w.Do(core.Case{Kind: "q", In: core.BStr(text), DF: "D"})
		})
	}
}

func toParam(in string, df core.BStr) (s string, params []any, err error, pi *core.PanicInfo) {
	pi = core.Safe(func() {
		if df != "" {
			s, params, err = lucene.ToParameterizedPostgres(in, lucene.WithDefaultField(string(df)))
		} else {
			s, params, err = lucene.ToParameterizedPostgres(in)
		}
	})
	return
}

// translatePattern: * to %, ? to _ for the wild cards of a pattern; an escaped character (escaped
// wild cards included) is not a wild card and travels as typed.
func translatePattern(p string) string {
	var sb strings.Builder
	for i := 0; i < len(p); i++ {
		switch {
		case p[i] == '\\' && i+1 < len(p):
			sb.WriteByte(p[i])
			i++
			sb.WriteByte(p[i])
		case p[i] == '*':
			sb.WriteByte('%')
		case p[i] == '?':
			sb.WriteByte('_')
		default:
			sb.WriteByte(p[i])
		}
	}
	return sb.String()
}

// expectedParams: the query's values left to right, as Go values.
func expectedParams(t *qast.Node) []any {
	var out []any
	conv := func(v qast.Value) {
		switch v.Kind {
		case qast.VStar:
			// an unbounded range end is not a value
		case qast.VInt:
			n, _ := strconv.Atoi(v.Text)
			out = append(out, n)
		case qast.VFloat:
			f, _ := strconv.ParseFloat(v.Text, 64)
			out = append(out, f)
		case qast.VWild:
			out = append(out, translatePattern(v.Text))
		case qast.VWord:
			out = append(out, qast.Unescape(v.Text))
		default:
			out = append(out, v.Text)
		}
	}
	qast.Walk(t, func(n *qast.Node) {
		if n.Op != qast.OLeaf {
			return
		}
		l := n.Leaf
		switch l.Kind {
		case qast.LRange:
			conv(l.Lo)
			conv(l.Hi)
		case qast.LList:
			for _, v := range l.List {
				conv(v)
			}
		default:
			conv(l.Val)
		}
	})
	return out
}

func paramValues(params []any) ([]sqlref.Value, string) {
	var out []sqlref.Value
	for i, p := range params {
		switch v := p.(type) {
		case int:
			out = append(out, sqlref.NumV(new(big.Rat).SetInt64(int64(v))))
		case float64:
			r := new(big.Rat)
			if _, ok := r.SetString(strconv.FormatFloat(v, 'f', -1, 64)); !ok {
				return nil, fmt.Sprintf("parameter %d is the non-finite float %v", i+1, v)
			}
			out = append(out, sqlref.NumV(r))
		case string:
			out = append(out, sqlref.StrV(v))
		default:
			return nil, fmt.Sprintf("parameter %d has Go type %T", i+1, p)
		}
	}
	return out, ""
}

func c04Eval(c core.Case) (res core.Result) {
	add := func(clause, class, obs, exp string) {
		res.Obs = append(res.Obs, core.Obs{Clause: clause, Class: class, Observed: obs, Expected: exp})
	}
	if c.Kind == "subst" {
		_, e1, p1 := toPostgres(string(c.In), c.DF)
		_, e2, p2 := toPostgres(string(c.In2), c.DF)
		if p1 != nil || p2 != nil || e1 != nil || e2 != nil {
			res.Tags = append(res.Tags, "skipped_not_renderable")
			return
		}
		s1, _, pe1, pp1 := toParam(string(c.In), c.DF)
		s2, _, pe2, pp2 := toParam(string(c.In2), c.DF)
		if pp1 != nil || pp2 != nil || pe1 != nil || pe2 != nil {
			res.Tags = append(res.Tags, "skipped_param_fails") // reported by the "q" case of that query
			return
		}
		res.Nontrivial = true
		res.Hash = core.Hash64(s1)
		if s1 != s2 {
			add("stable", "text-depends-on-value", fmt.Sprintf("%q vs %q", s1, s2), "identical SQL text for values of the same kind")
		}
		return
	}
	in := string(c.In)
	inline, ierr, ipi := toPostgres(in, c.DF)
	if ipi != nil {
		res.Tags = append(res.Tags, "skipped_upstream_panic")
		return
	}
	if ierr != nil {
		return
	}
	psql, params, perr, ppi := toParam(in, c.DF)
	if ppi != nil {
		add("succeeds", "panic:"+core.AbstractMsg(ppi.Msg)+"@"+ppi.Where, ppi.String(), "ToParameterizedPostgres succeeds (ToPostgres gave "+inline+")")
		return
	}
	if perr != nil {
		add("succeeds", "error", perr.Error(), "ToParameterizedPostgres succeeds (ToPostgres gave "+inline+")")
		return
	}
	res.Nontrivial = true
	res.Hash = core.Hash64(psql)
	rebound, nph := sqlref.Rebind(psql)
	if nph != len(params) {
		add("count", "placeholders!=params", fmt.Sprintf("%d placeholders, %d parameters in %q %#v", nph, len(params), psql, params), "as many ? as parameters")
		return
	}
	pvals, bad := paramValues(params)
	if bad != "" {
		add("kinds", "bad-kind", bad+fmt.Sprintf(" in %#v", params), "parameters of Go kind int, float64 or string")
		return
	}
	if c.Tree != "" {
		t, err := qast.Decode(c.Tree)
		if err != nil {
			panic("C04: bad tree")
		}
		want := expectedParams(t)
		if fmt.Sprintf("%#v", want) != fmt.Sprintf("%#v", params) {
			add("params", paramDiffClass(want, params), fmt.Sprintf("%#v for %s", params, psql), fmt.Sprintf("%#v", want))
		}
	}
	ird, err := sqlref.ReadFilter(inline)
	if err != nil {
		res.Tags = append(res.Tags, "skipped_upstream_unconfined")
		return
	}
	prd, err := sqlref.ReadFilter(rebound)
	if err != nil {
		add("parses", "unreadable", err.Error()+": "+psql, "the rebound parameterised SQL is a confined predicate")
		return
	}
	pr := sqlref.NewProbe()
	pr.AddSQL(ird, nil)
	pr.AddSQL(prd, pvals)
	for _, row := range pr.Rows(nil, 2000) {
		res.Extra++
		e1 := &sqlref.Env{Row: row}
		e2 := &sqlref.Env{Row: row, Params: pvals}
		a, err1 := e1.Eval(ird.Pred)
		b, err2 := e2.Eval(prd.Pred)
		if err1 != nil || err2 != nil {
			_, o1 := err1.(*sqlref.Outside)
			_, o2 := err2.(*sqlref.Outside)
			if (err1 == nil || o1) && (err2 == nil || o2) {
				if (err1 == nil) != (err2 == nil) {
					res.Tags = append(res.Tags, "row_outside_one_side")
				}
				continue
			}
			add("equiv", "unevaluable", fmt.Sprintf("%v / %v", err1, err2), "both predicates evaluate")
			return
		}
		if a != b {
			add("equiv", "differs", fmt.Sprintf("parameterised %s %#v is %v, inline %s is %v on row %s", psql, params, b, inline, a, sqlref.RowString(row)), "the same truth value")
			return
		}
	}
	return
}

// paramDiffClass names the first difference abstractly (missing / extra / wrong kind / wrong
// value) so that minimisation can drop unrelated leaves.
func paramDiffClass(want, got []any) string {
	for i := 0; i < len(want) || i < len(got); i++ {
		switch {
		case i >= len(got):
			return fmt.Sprintf("missing %T", want[i])
		case i >= len(want):
			return fmt.Sprintf("extra %T", got[i])
		case fmt.Sprintf("%T", want[i]) != fmt.Sprintf("%T", got[i]):
			// one list is shifted against the other or a kind changed
			if len(got) < len(want) {
				return fmt.Sprintf("missing %T", want[i])
			}
			if len(got) > len(want) {
				return fmt.Sprintf("extra %T", got[i])
			}
			return fmt.Sprintf("kind %T instead of %T", got[i], want[i])
		case fmt.Sprintf("%#v", want[i]) != fmt.Sprintf("%#v", got[i]):
			if len(got) < len(want) {
				return fmt.Sprintf("missing %T", want[i])
			}
			if len(got) > len(want) {
				return fmt.Sprintf("extra %T", got[i])
			}
			return fmt.Sprintf("wrong %T value or order", want[i])
		}
	}
	return "?"
}

func c04Shrink(c core.Case) []core.Case {
	if c.Kind == "subst" {
		return nil
	}
	if c.Tree != "" {
		t, err := qast.Decode(c.Tree)
		if err != nil {
			return nil
		}
		var out []core.Case
		simple := leavesC03Small(1)[0]
		for _, s := range shrinkTreesWith(t, simple) {
			out = append(out, core.Case{Kind: "q", In: core.BStr(qast.Text(s, &qast.PrintOpts{Full: true})), DF: c.DF, Tree: qast.Encode(s)})
		}
		return out
	}
	return shrinkTokens(c)
}
