package core

import (
	"encoding/json"
	"os"
	"path/filepath"
)

// Finding is one entry of /verif/known_findings.json. A known finding is a genuine defect of the
// pinned tree that was recorded instead of repaired; it is matched by the exact signatures of
// its minimised witnesses (clause | observation class | minimal case), so a different violation
// of the same property is still reported. A fixed finding suppresses nothing; its witnesses are
// replayed as regression cases at the start of every run.
type Finding struct {
	ID         string   `json:"id"`
	Property   string   `json:"property"`
	Status     string   `json:"status"` // "known" | "fixed"
	What       string   `json:"what"`
	Commit     string   `json:"commit,omitempty"`
	Signatures []string `json:"signatures,omitempty"` // known: exact signatures
	Witnesses  []Case   `json:"witnesses,omitempty"`  // fixed: regression cases
	Note       string   `json:"note,omitempty"`
}

type Ledger struct {
	Findings []Finding `json:"findings"`
	bySig    map[string]*Finding
}

func VerifDir() string {
	if d := os.Getenv("VERIF_DIR"); d != "" {
		return d
	}
	return "/verif"
}

func LoadLedger() (*Ledger, error) {
	l := &Ledger{bySig: map[string]*Finding{}}
	data, err := os.ReadFile(filepath.Join(VerifDir(), "known_findings.json"))
	if err != nil {
		if os.IsNotExist(err) {
			return l, nil
		}
		return nil, err
	}
	if err := json.Unmarshal(data, l); err != nil {
		return nil, err
	}
	for i := range l.Findings {
		f := &l.Findings[i]
		if f.Status != "known" {
			continue
		}
		for _, s := range f.Signatures {
			l.bySig[f.Property+"\x00"+s] = f
		}
	}
	return l, nil
}

func (l *Ledger) Known(property, sig string) *Finding {
	return l.bySig[property+"\x00"+sig]
}

func (l *Ledger) Fixed(property string) []*Finding {
	var out []*Finding
	for i := range l.Findings {
		if l.Findings[i].Property == property && l.Findings[i].Status == "fixed" {
			out = append(out, &l.Findings[i])
		}
	}
	return out
}
