//go:build !instr

// Package sqlref is the harness' SQL reader: PostgreSQL's own grammar (via pg_query_go) parses the
// rendered filter inside `SELECT 1 FROM t WHERE (<text>)`; the result is checked for confinement,
// walked against a whitelist of node kinds and turned into a small predicate AST that can be
// evaluated over rows with exact decimal arithmetic.
package sqlref

import (
	"fmt"
	"math/big"
	"regexp"
	"strings"

	pg_query "github.com/pganalyze/pg_query_go/v4"
	"google.golang.org/protobuf/proto"
)

const prefix = "SELECT 1 FROM t WHERE ("
const suffix = ")"

// Rebind replaces `?` placeholders outside "..." and '...' by $1..$n and returns their number.
func Rebind(sql string) (string, int) {
	var sb strings.Builder
	n := 0
	var quote byte
	for i := 0; i < len(sql); i++ {
		c := sql[i]
		switch {
		case quote != 0:
			if c == quote {
				quote = 0
			}
		case c == '"' || c == '\'':
			quote = c
		case c == '?':
			n++
			fmt.Fprintf(&sb, "$%d", n)
			continue
		}
		sb.WriteByte(c)
	}
	return sb.String(), n
}

// Kinds of predicate nodes.
const (
	KAnd     = "and"
	KOr      = "or"
	KNot     = "not"
	KCmp     = "cmp"     // Op in = < <= > >=
	KBetween = "between" // Kids: x, lo, hi
	KIn      = "in"      // Kids: x, v1..vn
	KSimilar = "similar" // Kids: x, pattern
	KRegex   = "regex"   // Kids: x, pattern
	KCol     = "col"
	KConst   = "const"
	KParam   = "param"
)

type Node struct {
	Kind  string
	Op    string
	Kids  []*Node
	Col   string
	Const *Const
	Param int
}

type Const struct {
	IsNum bool
	Num   *big.Rat
	Text  string // numeric text as PostgreSQL's scanner saw it / the decoded string constant
}

func (n *Node) String() string {
	switch n.Kind {
	case KCol:
		return fmt.Sprintf("col(%s)", n.Col)
	case KConst:
		if n.Const.IsNum {
			return "num(" + n.Const.Text + ")"
		}
		return fmt.Sprintf("str(%q)", n.Const.Text)
	case KParam:
		return fmt.Sprintf("$%d", n.Param)
	}
	parts := []string{}
	for _, k := range n.Kids {
		parts = append(parts, k.String())
	}
	return n.Kind + n.Op + "(" + strings.Join(parts, ", ") + ")"
}

// Read is the result of reading one rendered filter.
type Read struct {
	Pred    *Node
	Columns []string // every column reference, in order
	Strings []string // every string constant
	Numbers []*Const // every numeric constant
	Params  []int    // every parameter reference number, in order of appearance
}

var template *pg_query.ParseResult

func init() {
	t, err := pg_query.Parse(prefix + "TRUE" + suffix)
	if err != nil {
		panic(err)
	}
	stripWhere(t)
	template = t
}

func stripWhere(r *pg_query.ParseResult) *pg_query.Node {
	if len(r.Stmts) != 1 || r.Stmts[0].Stmt == nil {
		return nil
	}
	sel := r.Stmts[0].Stmt.GetSelectStmt()
	if sel == nil {
		return nil
	}
	w := sel.WhereClause
	sel.WhereClause = nil
	return w
}

// ReadFilter checks confinement of sql (placeholders already rebound) and returns its predicate.
// The error text names the first failed rule.
func ReadFilter(sql string) (*Read, error) {
	full := prefix + sql + suffix
	res, err := pg_query.Parse(full)
	if err != nil {
		return nil, fmt.Errorf("postgres parser rejects the statement: %v", err)
	}
	if len(res.Stmts) != 1 {
		return nil, fmt.Errorf("%d statements instead of one", len(res.Stmts))
	}
	where := stripWhere(res)
	if where == nil {
		return nil, fmt.Errorf("no WHERE clause left in the statement")
	}
	if !proto.Equal(res, template) {
		return nil, fmt.Errorf("the statement around the WHERE expression changed")
	}
	sc, err := pg_query.Scan(full)
	if err != nil {
		return nil, fmt.Errorf("postgres scanner rejects the statement: %v", err)
	}
	for _, t := range sc.Tokens {
		switch t.Token {
		case pg_query.Token_SQL_COMMENT, pg_query.Token_C_COMMENT:
			return nil, fmt.Errorf("the statement contains a comment at byte %d", t.Start)
		case pg_query.Token_ASCII_59:
			return nil, fmt.Errorf("the statement contains a statement separator at byte %d", t.Start)
		}
	}
	r := &Read{}
	p, err := r.walk(where)
	if err != nil {
		return nil, err
	}
	r.Pred = p
	return r, nil
}

// IsBool: the node is a predicate (as opposed to a bare value).
func IsBool(n *Node) bool {
	switch n.Kind {
	case KAnd, KOr, KNot, KCmp, KBetween, KIn, KSimilar, KRegex:
		return true
	}
	return false
}

func opName(names []*pg_query.Node) string {
	if len(names) != 1 {
		return "?"
	}
	return names[0].GetString_().GetSval()
}

func (r *Read) walk(n *pg_query.Node) (*Node, error) {
	if n == nil {
		return nil, fmt.Errorf("missing operand")
	}
	switch x := n.Node.(type) {
	case *pg_query.Node_BoolExpr:
		kind := map[pg_query.BoolExprType]string{pg_query.BoolExprType_AND_EXPR: KAnd, pg_query.BoolExprType_OR_EXPR: KOr, pg_query.BoolExprType_NOT_EXPR: KNot}[x.BoolExpr.Boolop]
		if kind == "" {
			return nil, fmt.Errorf("unknown Boolean operator")
		}
		out := &Node{Kind: kind}
		for _, a := range x.BoolExpr.Args {
			k, err := r.walk(a)
			if err != nil {
				return nil, err
			}
			// a bare constant or column as a Boolean operand is still "built solely from" the
			// allowed node kinds (the grammar accepts it); it just cannot be evaluated
			out.Kids = append(out.Kids, k)
		}
		return out, nil
	case *pg_query.Node_AExpr:
		e := x.AExpr
		op := opName(e.Name)
		l, err := r.walk(e.Lexpr)
		if err != nil {
			return nil, err
		}
		// operands of a plain comparison may themselves be allowed expressions (the statement
		// only restricts the node kinds): "f" = ('x' OR 'y*') is garbage but confined
		if e.Kind != pg_query.A_Expr_Kind_AEXPR_OP && !isValue(l) {
			return nil, fmt.Errorf("left operand of %s is not a column, constant or parameter: %s", op, l)
		}
		switch e.Kind {
		case pg_query.A_Expr_Kind_AEXPR_OP:
			rr, err := r.walk(e.Rexpr)
			if err != nil {
				return nil, err
			}
			switch op {
			case "=", "<", "<=", ">", ">=":
				return &Node{Kind: KCmp, Op: op, Kids: []*Node{l, rr}}, nil
			case "~":
				return &Node{Kind: KRegex, Kids: []*Node{l, rr}}, nil
			}
			return nil, fmt.Errorf("operator %q is not allowed", op)
		case pg_query.A_Expr_Kind_AEXPR_BETWEEN:
			lst := e.Rexpr.GetList()
			if lst == nil || len(lst.Items) != 2 {
				return nil, fmt.Errorf("malformed BETWEEN")
			}
			lo, err := r.walk(lst.Items[0])
			if err != nil {
				return nil, err
			}
			hi, err := r.walk(lst.Items[1])
			if err != nil {
				return nil, err
			}
			if !isValue(lo) || !isValue(hi) {
				return nil, fmt.Errorf("BETWEEN bound is not a constant or parameter")
			}
			return &Node{Kind: KBetween, Kids: []*Node{l, lo, hi}}, nil
		case pg_query.A_Expr_Kind_AEXPR_IN:
			if op != "=" {
				return nil, fmt.Errorf("NOT IN is not allowed")
			}
			lst := e.Rexpr.GetList()
			if lst == nil || len(lst.Items) == 0 {
				return nil, fmt.Errorf("malformed IN list")
			}
			out := &Node{Kind: KIn, Kids: []*Node{l}}
			for _, it := range lst.Items {
				k, err := r.walk(it)
				if err != nil {
					return nil, err
				}
				if !isValue(k) {
					return nil, fmt.Errorf("IN list element is not a constant or parameter: %s", k)
				}
				out.Kids = append(out.Kids, k)
			}
			return out, nil
		case pg_query.A_Expr_Kind_AEXPR_SIMILAR:
			if op != "~" {
				return nil, fmt.Errorf("NOT SIMILAR TO is not allowed")
			}
			// the grammar itself wraps the pattern in similar_to_escape(pattern)
			fc := e.Rexpr.GetFuncCall()
			if fc == nil || len(fc.Funcname) != 2 || fc.Funcname[1].GetString_().GetSval() != "similar_to_escape" || len(fc.Args) != 1 {
				return nil, fmt.Errorf("SIMILAR TO with an ESCAPE clause or a non-constant pattern")
			}
			pat, err := r.walk(fc.Args[0])
			if err != nil {
				return nil, err
			}
			if !isValue(pat) {
				return nil, fmt.Errorf("SIMILAR TO pattern is not a constant or parameter: %s", pat)
			}
			return &Node{Kind: KSimilar, Kids: []*Node{l, pat}}, nil
		}
		return nil, fmt.Errorf("expression kind %v is not allowed", e.Kind)
	case *pg_query.Node_ColumnRef:
		if len(x.ColumnRef.Fields) != 1 || x.ColumnRef.Fields[0].GetString_() == nil {
			return nil, fmt.Errorf("column reference is not a single name")
		}
		name := x.ColumnRef.Fields[0].GetString_().GetSval()
		r.Columns = append(r.Columns, name)
		return &Node{Kind: KCol, Col: name}, nil
	case *pg_query.Node_AConst:
		c := x.AConst
		if c.Isnull {
			return nil, fmt.Errorf("NULL constant")
		}
		switch v := c.Val.(type) {
		case *pg_query.A_Const_Ival:
			k := &Const{IsNum: true, Num: new(big.Rat).SetInt64(int64(v.Ival.Ival)), Text: fmt.Sprint(v.Ival.Ival)}
			r.Numbers = append(r.Numbers, k)
			return &Node{Kind: KConst, Const: k}, nil
		case *pg_query.A_Const_Fval:
			q, ok := new(big.Rat).SetString(v.Fval.Fval)
			if !ok {
				return nil, fmt.Errorf("numeric constant %q is not a finite number", v.Fval.Fval)
			}
			k := &Const{IsNum: true, Num: q, Text: v.Fval.Fval}
			r.Numbers = append(r.Numbers, k)
			return &Node{Kind: KConst, Const: k}, nil
		case *pg_query.A_Const_Sval:
			k := &Const{Text: v.Sval.Sval}
			r.Strings = append(r.Strings, k.Text)
			return &Node{Kind: KConst, Const: k}, nil
		}
		return nil, fmt.Errorf("constant of a kind that is not number or string (%T)", c.Val)
	case *pg_query.Node_ParamRef:
		r.Params = append(r.Params, int(x.ParamRef.Number))
		return &Node{Kind: KParam, Param: int(x.ParamRef.Number)}, nil
	}
	return nil, fmt.Errorf("node kind %T is not allowed in the filter", n.Node)
}

func isValue(n *Node) bool { return n.Kind == KCol || n.Kind == KConst || n.Kind == KParam }

// ---------------------------------------------------------------------------------------------
// Evaluation

// Value is a non-NULL column value or parameter.
type Value struct {
	IsNum bool
	Num   *big.Rat
	Str   string
}

func NumV(r *big.Rat) Value { return Value{IsNum: true, Num: r} }
func StrV(s string) Value   { return Value{Str: s} }

func (v Value) String() string {
	if v.IsNum {
		return v.Num.RatString()
	}
	return fmt.Sprintf("%q", v.Str)
}

// Outside is returned when a predicate leaves the fragment the evaluator models (type-mismatched
// comparison, SIMILAR TO pattern with regular-expression metacharacters, ...).
type Outside struct{ Why string }

func (o *Outside) Error() string { return "outside the evaluated fragment: " + o.Why }

type Env struct {
	Row    map[string]Value
	Params []Value // $1 = Params[0]
}

func (e *Env) value(n *Node) (Value, error) {
	switch n.Kind {
	case KCol:
		v, ok := e.Row[n.Col]
		if !ok {
			return Value{}, &Outside{"row has no column " + n.Col}
		}
		return v, nil
	case KConst:
		if n.Const.IsNum {
			return NumV(n.Const.Num), nil
		}
		return StrV(n.Const.Text), nil
	case KParam:
		if n.Param < 1 || n.Param > len(e.Params) {
			return Value{}, fmt.Errorf("parameter $%d not supplied", n.Param)
		}
		return e.Params[n.Param-1], nil
	}
	return Value{}, &Outside{"operand is an expression, not a value: " + n.String()}
}

// Compare is the comparison both evaluators (SQL and Lucene side) share.
func Compare(a, b Value) (int, error) {
	if a.IsNum != b.IsNum {
		return 0, &Outside{fmt.Sprintf("comparison of %s with %s", a, b)}
	}
	if a.IsNum {
		return a.Num.Cmp(b.Num), nil
	}
	return strings.Compare(a.Str, b.Str), nil
}

func (e *Env) Eval(n *Node) (bool, error) {
	switch n.Kind {
	case KAnd, KOr:
		res := n.Kind == KAnd
		for _, k := range n.Kids {
			v, err := e.Eval(k)
			if err != nil {
				return false, err
			}
			if n.Kind == KAnd {
				res = res && v
			} else {
				res = res || v
			}
		}
		return res, nil
	case KNot:
		v, err := e.Eval(n.Kids[0])
		return !v, err
	case KCmp:
		a, err := e.value(n.Kids[0])
		if err != nil {
			return false, err
		}
		b, err := e.value(n.Kids[1])
		if err != nil {
			return false, err
		}
		c, err := Compare(a, b)
		if err != nil {
			return false, err
		}
		switch n.Op {
		case "=":
			return c == 0, nil
		case "<":
			return c < 0, nil
		case "<=":
			return c <= 0, nil
		case ">":
			return c > 0, nil
		case ">=":
			return c >= 0, nil
		}
	case KBetween:
		x, err := e.value(n.Kids[0])
		if err != nil {
			return false, err
		}
		lo, err := e.value(n.Kids[1])
		if err != nil {
			return false, err
		}
		hi, err := e.value(n.Kids[2])
		if err != nil {
			return false, err
		}
		c1, err := Compare(x, lo)
		if err != nil {
			return false, err
		}
		c2, err := Compare(x, hi)
		if err != nil {
			return false, err
		}
		return c1 >= 0 && c2 <= 0, nil
	case KIn:
		x, err := e.value(n.Kids[0])
		if err != nil {
			return false, err
		}
		for _, k := range n.Kids[1:] {
			v, err := e.value(k)
			if err != nil {
				return false, err
			}
			c, err := Compare(x, v)
			if err != nil {
				return false, err
			}
			if c == 0 {
				return true, nil
			}
		}
		return false, nil
	case KSimilar:
		x, err := e.value(n.Kids[0])
		if err != nil {
			return false, err
		}
		p, err := e.value(n.Kids[1])
		if err != nil {
			return false, err
		}
		if x.IsNum || p.IsNum {
			return false, &Outside{"SIMILAR TO on a number"}
		}
		return SimilarTo(x.Str, p.Str)
	case KRegex:
		x, err := e.value(n.Kids[0])
		if err != nil {
			return false, err
		}
		p, err := e.value(n.Kids[1])
		if err != nil {
			return false, err
		}
		if x.IsNum || p.IsNum {
			return false, &Outside{"~ on a number"}
		}
		re, err := regexp.Compile(p.Str)
		if err != nil {
			return false, &Outside{"regular expression Go cannot compile"}
		}
		return re.MatchString(x.Str), nil
	}
	if isValue(n) {
		return false, &Outside{"a bare value used as a predicate"}
	}
	return false, fmt.Errorf("cannot evaluate %s", n)
}

// SimilarTo evaluates SQL's SIMILAR TO for patterns made of literal characters, % and _ and
// backslash escapes (the default escape character: \x is the literal x).
func SimilarTo(s, pat string) (bool, error) {
	// tokenise: literal runes vs the two wildcards
	type tok struct {
		r    rune
		wild byte // 0 literal, '%' or '_'
	}
	var toks []tok
	rs := []rune(pat)
	for i := 0; i < len(rs); i++ {
		switch r := rs[i]; {
		case r == '\\':
			if i+1 >= len(rs) {
				return false, &Outside{"SIMILAR TO pattern ends with the escape character: " + pat}
			}
			i++
			toks = append(toks, tok{r: rs[i]})
		case r == '%' || r == '_':
			toks = append(toks, tok{wild: byte(r)})
		case strings.ContainsRune(`|*+?(){}[]^$.`, r):
			return false, &Outside{"SIMILAR TO pattern with regular-expression metacharacters: " + pat}
		default:
			toks = append(toks, tok{r: r})
		}
	}
	str := []rune(s)
	si, pi := 0, 0
	star, mark := -1, 0
	for si < len(str) {
		switch {
		case pi < len(toks) && toks[pi].wild == '%':
			star, mark = pi, si
			pi++
		case pi < len(toks) && (toks[pi].wild == '_' || (toks[pi].wild == 0 && toks[pi].r == str[si])):
			pi++
			si++
		case star >= 0:
			mark++
			si = mark
			pi = star + 1
		default:
			return false, nil
		}
	}
	for pi < len(toks) && toks[pi].wild == '%' {
		pi++
	}
	return pi == len(toks), nil
}

// GlobMatch: many / one are the "any run" and "any one character" symbols.
func GlobMatch(s, pat string, many, one rune) bool {
	return globMatch([]rune(s), []rune(pat), many, one)
}

func globMatch(s, p []rune, many, one rune) bool {
	// iterative with backtracking on the last `many`
	si, pi := 0, 0
	star, mark := -1, 0
	for si < len(s) {
		switch {
		case pi < len(p) && p[pi] == many:
			star, mark = pi, si
			pi++
		case pi < len(p) && (p[pi] == one || p[pi] == s[si]):
			pi++
			si++
		case star >= 0:
			mark++
			si = mark
			pi = star + 1
		default:
			return false
		}
	}
	for pi < len(p) && p[pi] == many {
		pi++
	}
	return pi == len(p)
}
