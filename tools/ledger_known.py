#!/usr/bin/env python3
"""Adds KNOWN findings to known_findings.json from the replay files of the last run.
usage: ledger_known.py <PROP> <FINDING-ID> <regex on signature> <what>
Signatures are exact strings; this tool only copies them from /verif/replays/<PROP>/*.json
(written by a run) into the committed ledger. It is never run by a check."""
import json, sys, glob, re, os
prop, fid, rx, what = sys.argv[1:5]
L = json.load(open('known_findings.json'))
sigs = []
for f in sorted(glob.glob('replays/%s/*.json' % prop)):
    r = json.load(open(f))
    if re.search(rx, r['signature']):
        sigs.append(r['signature'])
sigs = sorted(set(sigs))
if not sigs:
    print('no signature matches'); sys.exit(1)
for fnd in L['findings']:
    if fnd['id'] == fid:
        fnd['signatures'] = sorted(set(fnd.get('signatures', []) + sigs)); fnd['what'] = what
        break
else:
    L['findings'].append({"id": fid, "property": prop, "status": "known", "what": what, "signatures": sigs})
json.dump(L, open('known_findings.json', 'w'), indent=1, ensure_ascii=False)
print(fid, len(sigs), 'signatures'); [print('  ', s) for s in sigs]
