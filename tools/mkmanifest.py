#!/usr/bin/env python3
"""Regenerates /verif/MANIFEST.json from the table below (kept in one place so that the manifest
is always valid). Usage: python3 tools/mkmanifest.py"""
import json, os

HERE = os.path.dirname(os.path.dirname(os.path.abspath(__file__)))

# id -> (claimed?, technique, level text, level note, design section)
CHECKS = {
 "C01": (False, "", "", "", "4/C01"),
 "C02": (False, "", "", "", "4/C02"),
 "C03": (False, "", "", "", "4/C03"),
 "C04": (False, "", "", "", "4/C04"),
 "C05": (False, "", "", "", "4/C05"),
 "C06": (False, "", "", "", "4/C06"),
 "C07": (False, "", "", "", "4/C07"),
 "C08": (False, "", "", "", "4/C08"),
 "C09": (False, "", "", "", "4/C09"),
 "C10": (False, "", "", "", "4/C10"),
 "C11": (False, "", "", "", "4/C11"),
 "C12": (False, "", "", "", "4/C12"),
 "C13": (False, "", "", "", "4/C13"),
 "C14": (False, "", "", "", "4/C14"),
 "C15": (False, "", "", "", "4/C15"),
 "C16": (True,
   "bounded exhaustive (stateless) exploration of the real lexer: all byte strings over class representatives x all Peek/Next call sequences, against a token-list-with-cursor reference model",
   "Every byte string of length <= L over 16 lexer-class representatives (and <= L+1 over 9 UTF-8 fragment bytes) is lexed by the real internal/lex; on each input every Peek/Next call sequence of length <= D is replayed on a fresh lexer and compared step by step with a stream model (token list + cursor); segmentation, EOF stickiness and must-fail classes (decided without the lexer) are checked on every input. Exhaustive inside the bounds, nothing sampled.",
   "Trusts: Go runtime; characters are represented by lexer class; inputs longer than L and call sequences longer than D are outside the bound.",
   "4/C16"),
}

PENDING_REASON = "check not built yet in this revision of /verif (planned: see DESIGN.md section 4); not claimed until it has been seen passing on the pinned tree and failing on a seeded change"

def main():
    checks, na = [], []
    for pid in sorted(CHECKS):
        claimed, tech, text, note, ref = CHECKS[pid]
        if not claimed:
            na.append({"property_id": pid, "reason": PENDING_REASON})
            continue
        checks.append({
            "property_id": pid,
            "quick_cmd": f"./run {pid} quick",
            "thorough_cmd": f"./run {pid} thorough",
            "evidence_file": f"/verif/evidence/{pid}.json",
            "replay_cmd_template": "./run replay {path}",
            "engine": "vcheck",
            "level_claimed": {"category": "model_checking", "text": text, "design_ref": "DESIGN.md " + ref},
            "level_note": note,
            "technique": tech,
        })
    m = {
        "version": 1,
        "setup_cmd": "./run setup",
        "hooks": {
            "guard": "verif",
            "enable": "no guarded code exists in /repo: instrumentation (statement points, package-level variable dumps) is generated from /repo's working tree on every run and applied with `go build -overlay` (harness/cmd/vinstr); the build tag `verif` is reserved",
            "baseline_off_cmd": "cd /repo && go test -mod=mod -vet=off -count=1 -timeout 25m ./... && cd /repo/fuzz && go test -mod=mod -vet=off -count=1 -timeout 25m ./...",
            "source_commits": [],
            "add_only": True,
        },
        "engines": [
            {"name": "vcheck", "path": "harness/cmd/vcheck", "serves_properties": sorted(p for p in CHECKS if CHECKS[p][0]),
             "kind_free_text": "hand-written stateless bounded-exhaustive explorer (prefix-tree DFS over inputs / operation sequences / schedules) sharded over worker processes; oracles are reference models in Go and PostgreSQL's own parser (pg_query_go)"},
        ],
        "checks": checks,
        "notes": "All checks: exit 0 = held on everything explored (KNOWN-FINDING lines for ledgered defects in known_findings.json), exit 1 + VIOLATION line otherwise. Deadlines end a run with exhaustive:false, never with a violation.",
        "not_applicable": na,
    }
    with open(os.path.join(HERE, "MANIFEST.json"), "w") as f:
        json.dump(m, f, indent=1)
        f.write("\n")

if __name__ == "__main__":
    main()
