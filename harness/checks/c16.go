package checks

import (
	"fmt"
	"strings"
	"unicode"
	"unicode/utf8"

	lucene "github.com/grindlemire/go-lucene"
	"github.com/grindlemire/go-lucene/internal/lex"
	"github.com/grindlemire/go-lucene/verif/core"
	"github.com/grindlemire/go-lucene/verif/enum"
)

// C16 — the token stream is a lossless segmentation of the input.
//
// Space: BYTES(B_lex, L) ∪ BYTES(B_utf8, L); on every input all Peek/Next call sequences of
// length <= D. Case: Kind "lex", In = input bytes, Aux = D (decimal).
//
// Oracle (see DESIGN 4/C16):
//  seg   : Next-only run yields <= len+2 tokens; skipping [ \t\r\n]* and then each token's Val in
//          order consumes the input exactly up to its end or to the error token
//  eof   : after EOF or an error token, further Next calls return EOF
//  peek  : every Peek/Next sequence agrees with the stream model (token list + cursor)
//  fail  : lexer error token in the stream => Parse fails; and the lexer-independent must-fail
//          classes (single unterminated delimiter, never-legal starter) => Parse fails

func init() {
	core.Register(&core.Check{
		ID:    "C16",
		Title: "The token stream is a lossless segmentation of the input",
		Units: func(tier string) []core.Unit {
			L := 5
			if tier == "thorough" {
				L = 6
			}
			var us []core.Unit
			for _, u := range enum.SeqUnits("bytes", "lex", len(enum.ByteAlphabets["lex"]), L, 2) {
				us = append(us, core.Unit{Name: u})
			}
			for _, u := range enum.SeqUnits("bytes", "utf8", len(enum.ByteAlphabets["utf8"]), L+1, 2) {
				us = append(us, core.Unit{Name: u})
			}
			// letters that spell the keywords in every case, blank and colon
			for _, u := range enum.SeqUnits("bytes", "kw", len(enum.ByteAlphabets["kw"]), L, 2) {
				us = append(us, core.Unit{Name: u})
			}
			// symbol runes aliasing ASCII symbols under truncation / width folding, Unicode-only blanks
			for _, u := range enum.SeqUnits("bytes", "alias", len(enum.ByteAlphabets["alias"]), L-1, 2) {
				us = append(us, core.Unit{Name: u})
			}
			// line ends (CR, LF) inside and between phrases, regexps and escapes
			for _, u := range enum.SeqUnits("bytes", "nl", len(enum.ByteAlphabets["nl"]), L+1, 2) {
				us = append(us, core.Unit{Name: u})
			}
			for _, u := range enum.SeqUnits("bytes", "punct", len(enum.ByteAlphabets["punct"]), 3, 1) {
				us = append(us, core.Unit{Name: u})
			}
			return us
		},
		Run: func(w *core.Worker, tier, unit string) {
			D := "6"
			alpha := enum.UnitAlphabet(unit)
			enum.EnumSeqUnit(unit, len(alpha), func(seq []int) {
				w.Do(core.Case{Kind: "lex", In: core.BStr(enum.Join(alpha, seq, "")), Aux: core.BStr(D)})
			})
		},
		Eval:   c16Eval,
		Shrink: shrinkBytes,
		Rule: "BYTES(B_lex,L) ∪ BYTES(B_utf8,L+1) ∪ BYTES(B_kw,L) ∪ BYTES(B_alias,L-1) ∪ BYTES(B_nl,L+1): every byte string over the class representatives, depth-first; " +
			"on each, every Peek/Next call sequence of length <= D against the stream model; non-trivial = lexes without error token to >= 1 token; " +
			"distinct = distinct token-type sequences",
		Assumptions: []string{
			"characters are represented by lexer class (letter, digit, space, tab, both quotes, slash, backslash, minus, symbol, wildcard, dot, illegal, 2-byte rune, invalid byte, all ways to cut multi-byte runes)",
			"inputs longer than the bound are not covered",
		},
		Bounds: func(tier string) map[string]any {
			if tier == "thorough" {
				return map[string]any{"L_lex": 6, "L_utf8": 7, "D": 6}
			}
			return map[string]any{"L_lex": 5, "L_utf8": 6, "D": 6}
		},
		Deadline: func(tier string) int {
			if tier == "thorough" {
				return 1000
			}
			return 300
		},
	})
}

type lexTok struct {
	typ lex.TokType
	val string
}

func c16Eval(c core.Case) (res core.Result) {
	in := string(c.In)
	D := 6
	fmt.Sscanf(string(c.Aux), "%d", &D)
	add := func(clause, class, obs, exp string) {
		res.Obs = append(res.Obs, core.Obs{Clause: clause, Class: class, Observed: obs, Expected: exp})
	}
	var toks []lexTok
	var after []lexTok
	pi := core.Safe(func() {
		l := lex.Lex(in)
		limit := len(in) + 3
		for i := 0; i < limit; i++ {
			t := l.Next()
			toks = append(toks, lexTok{t.Typ, t.Val})
			if t.Typ == lex.TEOF || t.Typ == lex.TErr {
				break
			}
		}
		last := toks[len(toks)-1]
		if last.typ == lex.TEOF || last.typ == lex.TErr {
			for i := 0; i < 3; i++ {
				t := l.Next()
				after = append(after, lexTok{t.Typ, t.Val})
			}
		}
	})
	if pi != nil {
		add("seg", "panic", pi.String(), "no panic")
		return
	}
	last := toks[len(toks)-1]
	if last.typ != lex.TEOF && last.typ != lex.TErr {
		add("seg", "too-many-tokens", fmt.Sprintf("%d tokens without EOF on %d bytes", len(toks), len(in)), "<= len+2 tokens")
		return
	}
	// segmentation
	pos := 0
	skip := func() {
		for pos < len(in) && (in[pos] == ' ' || in[pos] == '\t' || in[pos] == '\r' || in[pos] == '\n') {
			pos++
		}
	}
	for i, t := range toks {
		if t.typ == lex.TErr {
			break
		}
		skip()
		if t.typ == lex.TEOF {
			if pos != len(in) {
				add("seg", "eof-before-end", fmt.Sprintf("EOF token at byte %d of %d", pos, len(in)), "EOF only at end of input")
			}
			break
		}
		if t.val == "" {
			add("seg", "empty-token", fmt.Sprintf("token %d (%v) has empty text", i, t.typ), "non-empty token text")
			break
		}
		if !strings.HasPrefix(in[pos:], t.val) {
			add("seg", "text-mismatch", fmt.Sprintf("token %d %q does not continue the input at byte %d", i, t.val, pos), "token texts reproduce the input")
			break
		}
		pos += len(t.val)
	}
	for i, t := range after {
		if t.typ != lex.TEOF {
			add("eof", "not-sticky", fmt.Sprintf("Next #%d after end returned %v %q", i+1, t.typ, t.val), "EOF forever")
			break
		}
	}
	// Peek/Next sequences against the stream model
	model := func(i int) lexTok {
		if i < len(toks) {
			return toks[i]
		}
		return lexTok{lex.TEOF, "EOF"}
	}
	if len(res.Obs) == 0 {
		ops := make([]byte, 0, D)
		var rec func() bool
		run := func() (bad string) {
			pi := core.Safe(func() {
				l := lex.Lex(in)
				cur := 0
				for k, op := range ops {
					var got lex.Token
					var want lexTok
					if op == 'P' {
						got = l.Peek()
						want = model(cur)
					} else {
						got = l.Next()
						want = model(cur)
						cur++
					}
					if got.Typ != want.typ || (got.Typ != lex.TEOF && got.Val != want.val) {
						bad = fmt.Sprintf("ops %s: call %d returned %v %q, stream model says %v %q", ops, k+1, got.Typ, got.Val, want.typ, want.val)
						return
					}
				}
			})
			if pi != nil {
				return "ops " + string(ops) + ": " + pi.String()
			}
			return bad
		}
		rec = func() bool {
			if len(ops) > 0 {
				res.Extra++
				if bad := run(); bad != "" {
					add("peek", "model-mismatch", bad, "Peek = next Next, no effect on the stream")
					return false
				}
			}
			if len(ops) == D {
				return true
			}
			// no point going further than the stream length + 2
			for _, op := range []byte{'N', 'P'} {
				ops = append(ops, op)
				ok := rec()
				ops = ops[:len(ops)-1]
				if !ok {
					return false
				}
			}
			return true
		}
		rec()
	}
	// must-lex: decided without the lexer's rules — words made of letters, digits and underscores
	// (optionally a leading minus before a digit run), separated by blanks, are exactly those tokens
	if words, ok := independentWords(in); ok {
		var got []string
		bad := false
		for _, t := range toks {
			if t.typ == lex.TEOF {
				break
			}
			if t.typ != lex.TLiteral {
				bad = true
			}
			got = append(got, t.val)
		}
		if bad || strings.Join(got, "\x00") != strings.Join(words, "\x00") {
			add("words", "plain-words-mislexed", fmt.Sprintf("tokens %q (types %v)", got, tokTypes(toks)), fmt.Sprintf("the literal tokens %q", words))
		}
	}
	// must-fail
	hasErr := last.typ == lex.TErr
	mustFail := ""
	if hasErr {
		mustFail = "lexer stream contains an error token"
	} else if why := independentMustFail(in); why != "" {
		mustFail = why
	} else if why := refScan(in); why != "" {
		mustFail = why
	}
	if mustFail != "" {
		var err error
		pi := core.Safe(func() { _, err = lucene.Parse(in) })
		if pi == nil && err == nil {
			add("fail", "accepted", "Parse accepted the input", "Parse fails: "+mustFail)
		}
		if !hasErr {
			add("fail", "lexer-missed", "lexer produced no error token", "lexical error: "+mustFail)
		}
	}
	if !hasErr && len(toks) > 1 {
		res.Nontrivial = true
		var sb strings.Builder
		for _, t := range toks {
			fmt.Fprintf(&sb, "%d,", int(t.typ))
		}
		res.Hash = core.Hash64(sb.String())
	}
	return
}

// independentMustFail decides, without reference to the lexer's rules, membership in the
// must-fail classes of the statement.
func independentMustFail(in string) string {
	nq, ns, nd, nb := strings.Count(in, `"`), strings.Count(in, `'`), strings.Count(in, "/"), strings.Count(in, `\`)
	if nb == 0 && nd == 0 && nq+ns > 0 {
		// only the quote character that opened a phrase closes it
		var open byte
		for i := 0; i < len(in); i++ {
			c := in[i]
			if c != '"' && c != '\'' {
				continue
			}
			if open == 0 {
				open = c
			} else if c == open {
				open = 0
			}
		}
		if open != 0 {
			return "unterminated quoted phrase (opened by " + string(open) + ")"
		}
	}
	if nb == 0 {
		if nq == 1 && ns == 0 && nd == 0 {
			return "single unterminated double quote"
		}
		if ns == 1 && nq == 0 && nd == 0 {
			return "single unterminated single quote"
		}
		if nd == 1 && nq == 0 && ns == 0 {
			return "single unterminated regexp slash"
		}
	}
	if nq+ns+nd+nb == 0 {
		prevOK := true // start of input
		for i := 0; i < len(in); {
			b := in[i]
			illegal, w := false, 1
			switch {
			case b == '!' || b == ',' || b == ';' || b == 0:
				illegal = true
			case b >= 0x80:
				// a byte that does not start a valid rune can never start a token
				r, size := decodeRune(in[i:])
				if r == 0xFFFD && size == 1 {
					illegal = true
				} else {
					w = size
				}
			}
			if illegal && prevOK {
				return fmt.Sprintf("byte %q at %d cannot start a token", b, i)
			}
			if w > 1 {
				// a valid non-ASCII rune that is a symbol, punctuation, separator or control character
				// is not part of any word and starts no token, wherever it stands
				if r, _ := utf8.DecodeRuneInString(in[i:]); unicode.IsSymbol(r) || unicode.IsPunct(r) || unicode.IsSpace(r) || unicode.IsControl(r) {
					return fmt.Sprintf("rune %q at %d cannot start a token", r, i)
				}
			}
			prevOK = strings.ContainsRune(" \t\r\n()[]{}:+=><~^", rune(b))
			i += w
		}
	}
	return ""
}

// refScan is a reference scanner for the three must-fail classes on arbitrary valid UTF-8 input,
// written from the documented token classes and nothing else: blanks separate tokens; a phrase
// runs from a quote character to the next occurrence of the same character (no escapes inside);
// a regexp runs from a slash to the next slash that is not preceded by an odd run of escaping
// backslashes (a backslash escapes the character after it); a word is made of letters, digits,
// underscore, * ? . - and escape pairs, and starts with none of . ; the one-character symbols are
// ()[]{}:+=><~^ and - . Everything else cannot start a token. It returns why the input must fail,
// or "" if it found no lexical error.
func refScan(in string) string {
	if !utf8.ValidString(in) {
		return "" // cut runes are covered by the byte rules above
	}
	rs := []rune(in)
	word := func(r rune) bool {
		return r == '_' || unicode.IsLetter(r) || unicode.IsDigit(r) || r == '*' || r == '?'
	}
	i := 0
	for i < len(rs) {
		r := rs[i]
		switch {
		case r == ' ' || r == '\t' || r == '\r' || r == '\n':
			i++
		case r == '"' || r == '\'':
			j := i + 1
			for j < len(rs) && rs[j] != r {
				j++
			}
			if j >= len(rs) {
				return fmt.Sprintf("phrase opened by %q at rune %d is not terminated", r, i)
			}
			i = j + 1
		case r == '/':
			j := i + 1
			for j < len(rs) && rs[j] != '/' {
				if rs[j] == '\\' {
					j++
				}
				j++
			}
			if j >= len(rs) {
				return fmt.Sprintf("regexp opened at rune %d is not terminated", i)
			}
			i = j + 1
		case strings.ContainsRune("()[]{}:+=><~^-", r):
			i++
		case word(r) || r == '\\':
			for i < len(rs) && (word(rs[i]) || rs[i] == '.' || rs[i] == '-' || rs[i] == '\\') {
				if rs[i] == '\\' {
					i++
				}
				i++
			}
		default:
			return fmt.Sprintf("rune %q at %d cannot start a token", r, i)
		}
	}
	return ""
}

func tokTypes(ts []lexTok) []string {
	var out []string
	for _, t := range ts {
		out = append(out, t.typ.String())
	}
	return out
}

// independentWords: if the input consists only of blank-separated words over letters, digits
// and underscore (a word may instead be a minus sign followed by digits), none of them a
// keyword, it returns the words.
func independentWords(in string) ([]string, bool) {
	if !utf8.ValidString(in) || strings.TrimSpace(in) == "" {
		return nil, false
	}
	fields := strings.FieldsFunc(in, func(r rune) bool { return r == ' ' || r == '\t' || r == '\r' || r == '\n' })
	for _, f := range fields {
		rs := []rune(f)
		body := rs
		if rs[0] == '-' {
			if len(rs) == 1 {
				return nil, false
			}
			body = rs[1:]
			for _, r := range body {
				if !unicode.IsDigit(r) {
					return nil, false
				}
			}
		}
		for _, r := range body {
			if !(r == '_' || unicode.IsLetter(r) || unicode.IsDigit(r)) {
				return nil, false
			}
		}
		switch strings.ToUpper(f) {
		case "AND", "OR", "NOT", "TO":
			return nil, false
		}
	}
	return fields, true
}
