#!/usr/bin/env python3
"""Builds /verif/seeded/RESULTS.md (detection table) from the meta.json files."""
import json, os, re
S = '/verif/seeded'
rows = []
for name in sorted(os.listdir(S)):
    d = os.path.join(S, name)
    if not os.path.isdir(d) or name in ('own', 'benign'):
        continue
    m = json.load(open(os.path.join(d, 'meta.json')))
    notes = open(os.path.join(d, 'agent_notes.md')).read() if os.path.exists(os.path.join(d, 'agent_notes.md')) else ''
    what = m.get('what', '')
    for chk, r in sorted(m.get('results', {}).items()):
        rows.append((name, chk, r['status'], r.get('wall_s', ''), what, r.get('first', '')))
own = []
O = os.path.join(S, 'own')
if os.path.isdir(O):
    for name in sorted(os.listdir(O)):
        mp = os.path.join(O, name, 'meta.json')
        if not os.path.exists(mp):
            continue
        m = json.load(open(mp))
        if m.get('counted') is False:
            continue
        for chk, r in sorted(m.get('results', {}).items()):
            own.append((name, chk, r['status'], r.get('first', '')))
def esc(s):
    return s.replace('|', '\\|').replace('\n', ' ')
with open(os.path.join(S, 'RESULTS.md'), 'w') as f:
    f.write('# Seeded changes and what the checks reported (quick tier)\n\n')
    f.write('Each change compiles, passes the repository\'s 320 tests, and breaks the named property. '
            'Changes `CNN-a/b` were written by independent sub-agents that saw only the property text; `own/*` are the M lists of DESIGN.md. '
            'Procedure: `git -C /repo apply seeded/<dir>/patch.diff; ./run <ID> quick; git -C /repo checkout -- .`\n\n')
    f.write('| change | what it does / what it needs to manifest | check | result | witness reported (minimised) |\n|---|---|---|---|---|\n')
    for name, chk, st, wall, what, first in rows:
        f.write('| %s | %s | %s | %s (%ss) | %s |\n' % (name, esc(what), chk, st, wall, esc(first[:260])))
    f.write('\n## Own mutations\n\n| change | check | result | witness |\n|---|---|---|---|\n')
    for name, chk, st, first in own:
        f.write('| %s | %s | %s | %s |\n' % (name, chk, st, esc(first[:200])))
det = sum(1 for r in rows if r[2] == 'DETECTED')
print('agent seeds: %d/%d detected; own: %d/%d' % (det, len(rows), sum(1 for r in own if r[2] == 'DETECTED'), len(own)))
