package checks

import (
	"encoding/json"
	"fmt"
	"strconv"
	"strings"
	"unicode/utf8"

	"github.com/grindlemire/go-lucene/pkg/driver"
	"github.com/grindlemire/go-lucene/pkg/lucene/expr"
	"github.com/grindlemire/go-lucene/verif/core"
	"github.com/grindlemire/go-lucene/verif/enum"
	"github.com/grindlemire/go-lucene/verif/qast"
)

// C12 — JSON encoding of expressions round-trips.
//
// Case: Kind "q"; In = query text; DF. For every accepted valid-UTF-8 query:
//   encode   : json.Marshal succeeds
//   decode   : json.Unmarshal of those bytes succeeds (a panic is a violation of this property)
//   validate : the decoded expression passes Validate
//   reencode : re-encoding gives identical bytes
//   print    : String() identical
//   render   : Render and RenderParam give identical (text, params, error text)
//   deepequal: reflect.DeepEqual with the original whenever every leaf has the kind the decoder
//              infers from its JSON text

var jsonUnaries = []qast.UForm{
	{Op: qast.ONot}, {Op: qast.OMust}, {Op: qast.OMustN},
	{Op: qast.OFuzzy}, {Op: qast.OFuzzy, Arg: "0"}, {Op: qast.OFuzzy, Arg: "3"},
	{Op: qast.OBoost}, {Op: qast.OBoost, Arg: "2.5"},
}

func leavesJSON() []*qast.Node {
	L := qast.Lf
	eq := func(v qast.Value) *qast.Node { return L(qast.Leaf{Kind: qast.LEq, Field: "f", Val: v}) }
	ls := qast.LeavesFull()
	ls = append(ls,
		L(qast.Leaf{Kind: qast.LTerm, Val: qast.Q("")}),
		eq(qast.Q("")),
		eq(qast.Q("*")),
		eq(qast.Q("a?")),
		eq(qast.Q("/x/")),
		eq(qast.W(`\/`)),
		eq(qast.F("5.0")),
		// decimals JSON writes with an exponent (below 1e-6, from 1e21)
		eq(qast.F("0.0000001")), eq(qast.F("0.0000000025")), eq(qast.F("1e21")), eq(qast.F("123456789012345678901234.0")),
		L(qast.Leaf{Kind: qast.LList, Field: "f", List: []qast.Value{qast.I("1"), qast.F("0.0000005")}}),
		L(qast.Leaf{Kind: qast.LGt, Field: "f", Val: qast.F("0.0000000025")}),
		// field names made of pattern characters, digits, key words of the encoding
		L(qast.Leaf{Kind: qast.LEq, Field: "fo*o", Val: qast.W("bar")}),
		L(qast.Leaf{Kind: qast.LRange, Field: "a?", Lo: qast.I("1"), Hi: qast.I("2"), Incl: true}),
		L(qast.Leaf{Kind: qast.LList, Field: "col*", List: []qast.Value{qast.W("x"), qast.W("y")}}),
		L(qast.Leaf{Kind: qast.LEq, Field: `\/re\/`, Val: qast.W("v")}),
		L(qast.Leaf{Kind: qast.LGe, Field: "5", Val: qast.I("5")}),
		eq(qast.F("1e3")),
		eq(qast.I("-0")),
		eq(qast.I("9223372036854775807")),
		eq(qast.I("-9223372036854775808")),
		eq(qast.W("é中")),
		// characters whose Go and JSON escapes differ, or that JSON escapes although they are legal
		eq(qast.Q("x\x7fy")), eq(qast.Q("\x01")), eq(qast.Q("a\tb\nc")), eq(qast.Q("tag\U000E0001end")), eq(qast.Q("l\u2028s")), eq(qast.Q("<&>")),
		eq(qast.Q("é 😀")),
		eq(qast.W(`\"min\"\:\"max\"\:`)),
		L(qast.Leaf{Kind: qast.LEq, Field: `m\"in`, Val: qast.W("v")}),
		L(qast.Leaf{Kind: qast.LRange, Field: "f", Lo: qast.F("0.5"), Hi: qast.F("2.0"), Incl: true}),
		L(qast.Leaf{Kind: qast.LRange, Field: "f", Lo: qast.Star, Hi: qast.Star, Incl: false}),
		L(qast.Leaf{Kind: qast.LRange, Field: "f", Lo: qast.Q("a b"), Hi: qast.Q(""), Incl: true}),
		L(qast.Leaf{Kind: qast.LGt, Field: "f", Val: qast.Q("")}),
		// integers beyond 2^53 in every position
		L(qast.Leaf{Kind: qast.LRange, Field: "f", Lo: qast.I("9007199254740993"), Hi: qast.Star, Incl: true}),
		L(qast.Leaf{Kind: qast.LRange, Field: "f", Lo: qast.I("-9223372036854775808"), Hi: qast.I("9223372036854775807"), Incl: false}),
		L(qast.Leaf{Kind: qast.LList, Field: "f", List: []qast.Value{qast.I("9007199254740993"), qast.I("1")}}),
		L(qast.Leaf{Kind: qast.LGt, Field: "f", Val: qast.I("9007199254740993")}),
		// the encoding's own key words as data
		L(qast.Leaf{Kind: qast.LRange, Field: "f", Lo: qast.W("left"), Hi: qast.W("right"), Incl: true}),
		L(qast.Leaf{Kind: qast.LRange, Field: "min", Lo: qast.W("min"), Hi: qast.W("max"), Incl: false}),
		eq(qast.W("operator")), eq(qast.W("min")), eq(qast.W("inclusive")), eq(qast.W("boundaries")),
		L(qast.Leaf{Kind: qast.LEq, Field: "left", Val: qast.W("right")}),
		L(qast.Leaf{Kind: qast.LList, Field: "max", List: []qast.Value{qast.W("min"), qast.W("left")}}),
		L(qast.Leaf{Kind: qast.LList, Field: "f", List: []qast.Value{qast.Q(""), qast.W("y")}}),
	)
	return ls
}

func init() {
	treeSetsExtra["json0"] = leavesJSON
	treeSetsExtra["json1"] = func() []*qast.Node { return qast.AllTreesU(leavesJSON(), jsonUnaries, 1) }
	core.Register(&core.Check{
		ID:    "C12",
		Title: "JSON encoding of expressions round-trips",
		Units: func(tier string) []core.Unit {
			var us []core.Unit
			add := func(names []string, w int) {
				for _, x := range names {
					us = append(us, core.Unit{Name: x, Weight: w})
				}
			}
			add(qast.TreeUnits("jtree|1", len(treeSet("json0")), 1), 1)
			n := 4
			if tier == "thorough" {
				n = 5
				add(qast.TreeUnits("jtree|2", len(treeSet("json1")), 200), 5)
			} else {
				add(qast.TreeUnits("tree|small6|2|json", len(treeSet("small1")), 8), 2)
			}
			for _, u := range enum.SeqUnits("tok", "full", len(enum.SigmaFull), n, 2) {
				us = append(us, core.Unit{Name: u})
			}
			us = append(us, core.Unit{Name: "reuse", Weight: 2})
			// bare words built from escape sequences and the characters they protect, in every value slot
			for _, u := range enum.SeqUnits("bytes", "esc", len(enum.ByteAlphabets["esc"]), n, 1) {
				us = append(us, core.Unit{Name: "word|" + u})
			}
			return us
		},
		Run: func(w *core.Worker, tier, unit string) {
			do := func(text string) {
				for _, df := range []core.BStr{"", "D"} {
					w.Do(core.Case{Kind: "q", In: core.BStr(text), DF: df})
				}
			}
			switch {
			case unit == "reuse":
				// every ordered pair of a small set of shapes (each operator at the root, leaves of every kind)
				var texts []string
				for _, t := range qast.AllTreesU(qast.LeavesSmall(3), jsonUnaries, 1) {
					texts = append(texts, qast.Text(t, nil))
				}
				for _, t := range treeSet("json0") {
					texts = append(texts, qast.Text(t, nil))
				}
				for _, a := range texts {
					for _, b := range texts {
						w.Do(core.Case{Kind: "reuse", In: core.BStr(a), In2: core.BStr(b)})
					}
				}
			case strings.HasPrefix(unit, "word|"):
				inner := strings.TrimPrefix(unit, "word|")
				alpha := enum.UnitAlphabet(inner)
				enum.EnumSeqUnit(inner, len(alpha), func(seq []int) {
					wd := enum.Join(alpha, seq, "")
					if wd == "" {
						return
					}
					for _, frame := range []string{"%s", "f : %s", "f : [ %s TO 5 ]", "f : { a TO %s }", "f : ( %s OR y )", "f : > %s", "%s : v"} {
						do(fmt.Sprintf(frame, wd))
					}
				})
			case strings.HasPrefix(unit, "jtree|"):
				d := strings.Split(unit, "|")[1]
				sub := treeSet("json0")
				if d == "2" {
					sub = treeSet("json1")
				}
				p := strings.Split(unit, "|")
				qast.EnumTreeUnitU("t|"+strings.Join(p[2:], "|"), treeSet("json0"), sub, jsonUnaries, func(t *qast.Node) { do(qast.Text(t, nil)) })
			case strings.HasPrefix(unit, "tree|"):
				leaves, sub := treeUnitSets(unit)
				_, eu := stripTreeUnit(unit)
				qast.EnumTreeUnit(eu, leaves, sub, func(t *qast.Node) { do(qast.Text(t, nil)) })
			default:
				forEachFlat(unit, func(kind, text string) { do(text) })
			}
		},
		Eval:   c12Eval,
		Shrink: func(c core.Case) []core.Case {
			out := shrinkTokens(c)
			if c.Kind == "reuse" {
				out = append(out, shrinkTokensField(c, func(c core.Case) string { return string(c.In2) }, func(c *core.Case, s string) { c.In2 = core.BStr(s) })...)
			}
			return out
		},
		Rule: "accepted texts of TREE(L_json,d) (L_full plus the codec's corner values: empty strings, quoted * ? and /x/, escaped /, 5.0, 1e3, -0, int64 extremes, non-ASCII, a word spelling \"min\":\"max\":, float/open/empty range bounds; fuzzy 0/1/3, boost 1/2.5) " +
			"every ordered pair of 100+ shapes decoded one after the other into the same variable; and accepted members of TOK(Σ_full,N) and of WORDS(B_esc,N) x 7 value slots (bare words built from \\\\ \\* \\? * ? \\/ / escaped blank and quote), each with and without a default field; non-trivial = accepted; distinct = distinct JSON encodings",
		Assumptions: []string{"DeepEqual is demanded only when every leaf has the kind the decoder infers from its JSON text (computed from the original tree), as the statement says"},
		Bounds: func(tier string) map[string]any {
			if tier == "thorough" {
				return map[string]any{"tree_depth": 2, "leaves": len(leavesJSON()), "unary_forms": len(jsonUnaries), "N_tok": 5}
			}
			return map[string]any{"tree_depth": 1, "leaves": len(leavesJSON()), "unary_forms": len(jsonUnaries), "N_tok": 4, "extra": "T(6,2)"}
		},
		Deadline: func(tier string) int {
			if tier == "thorough" {
				return 2000
			}
			return 300
		},
	})
}

// c12Reuse: decoding into a variable that already holds another decoded expression gives what
// decoding into a fresh variable gives (json.Unmarshal is routinely pointed at a reused target).
func c12Reuse(c core.Case) (res core.Result) {
	p1, p2 := doParse(string(c.In), ""), doParse(string(c.In2), "")
	if p1.pi != nil || p2.pi != nil || p1.err != nil || p2.err != nil || p1.e == nil || p2.e == nil {
		return
	}
	var b1, b2 []byte
	var e1, e2 error
	if pi := core.Safe(func() { b1, e1 = json.Marshal(p1.e); b2, e2 = json.Marshal(p2.e) }); pi != nil || e1 != nil || e2 != nil {
		return
	}
	var fresh, reused expr.Expression
	var ef, er1, er2 error
	if pi := core.Safe(func() {
		ef = json.Unmarshal(b2, &fresh)
		er1 = json.Unmarshal(b1, &reused)
		er2 = json.Unmarshal(b2, &reused)
	}); pi != nil {
		res.Obs = append(res.Obs, core.Obs{Clause: "reuse", Class: "panic", Observed: pi.String(), Expected: "decoding returns"})
		return
	}
	if ef != nil || er1 != nil {
		return // the plain round trip clauses own this
	}
	res.Nontrivial = true
	res.Hash = core.Hash64("reuse", string(b1), string(b2))
	if er2 != nil {
		res.Obs = append(res.Obs, core.Obs{Clause: "reuse", Class: "error", Observed: er2.Error(), Expected: "decodes as into a fresh variable"})
		return
	}
	if !deepEqual(&fresh, &reused) {
		res.Obs = append(res.Obs, core.Obs{Clause: "reuse", Class: "differs",
			Observed: fmt.Sprintf("decoding %s into a variable that held %s gives %s", b2, b1, gostr(&reused)), Expected: gostr(&fresh)})
	}
	return
}

// leafKindsInferable: every leaf of the original tree has the kind / Go type the decoder will
// infer from its JSON text.
func leafKindsInferable(v any) bool {
	switch x := v.(type) {
	case *expr.Expression:
		if x == nil {
			return true
		}
		switch x.Op {
		case expr.Literal, expr.Wild, expr.Regexp:
			switch l := x.Left.(type) {
			case string:
				want := expr.Literal
				if len(l) > 0 && l[0] == '/' && l[len(l)-1] == '/' {
					want = expr.Regexp
				} else if strings.ContainsAny(l, "*?") {
					want = expr.Wild
				}
				return x.Op == want
			case float64:
				b, err := json.Marshal(l)
				if err != nil {
					return false
				}
				if _, err := strconv.Atoi(string(b)); err == nil {
					return false // integer-valued: decodes as int
				}
				f, err := strconv.ParseFloat(string(b), 64)
				return err == nil && f == l
			case int:
				return x.Op == expr.Literal
			case expr.Column:
				return true
			}
			return false
		case expr.List:
			items, _ := x.Left.([]*expr.Expression)
			for _, it := range items {
				if !leafKindsInferable(it) {
					return false
				}
			}
			return true
		}
		return leafKindsInferable(x.Left) && leafKindsInferable(x.Right)
	case *expr.RangeBoundary:
		return x == nil || (leafKindsInferable(x.Min) && leafKindsInferable(x.Max))
	}
	return true
}

func renderBoth(e *expr.Expression) (string, *core.PanicInfo) {
	var out string
	pi := core.Safe(func() {
		d := driver.NewPostgresDriver()
		s, err := d.Render(e)
		ps, params, perr := d.RenderParam(e)
		out = fmt.Sprintf("render=(%q,%v) param=(%q,%#v,%v)", s, err, ps, params, perr)
	})
	return out, pi
}

func c12Eval(c core.Case) (res core.Result) {
	in := string(c.In)
	if !utf8.ValidString(in) {
		return
	}
	if c.Kind == "reuse" {
		return c12Reuse(c)
	}
	p := doParse(in, c.DF)
	if p.pi != nil {
		res.Tags = append(res.Tags, "skipped_upstream_panic")
		return
	}
	if p.err != nil || p.e == nil {
		return
	}
	add := func(clause, class, obs, exp string) {
		res.Obs = append(res.Obs, core.Obs{Clause: clause, Class: class, Observed: obs, Expected: exp})
	}
	var b []byte
	var err error
	if pi := core.Safe(func() { b, err = json.Marshal(p.e) }); pi != nil {
		res.Tags = append(res.Tags, "skipped_upstream_panic") // C01: JSON encoding of a parsed expression panics
		return
	}
	if err != nil {
		add("encode", "error", err.Error(), "json.Marshal succeeds")
		return
	}
	res.Nontrivial = true
	res.Hash = core.Hash64(string(b))
	var d expr.Expression
	if pi := core.Safe(func() { err = json.Unmarshal(b, &d) }); pi != nil {
		add("decode", "panic:"+core.AbstractMsg(pi.Msg)+"@"+pi.Where, pi.String()+" on "+string(b), "decoding the encoder's own output succeeds")
		return
	}
	if err != nil {
		add("decode", "error", err.Error()+" on "+string(b), "decoding the encoder's own output succeeds")
		return
	}
	var verr error
	if pi := core.Safe(func() { verr = expr.Validate(&d) }); pi != nil {
		add("validate", "panic", pi.String(), "decoded expression validates")
		return
	}
	if verr != nil {
		add("validate", "error", verr.Error()+" on "+string(b), "decoded expression validates")
	}
	var b2 []byte
	if pi := core.Safe(func() { b2, err = json.Marshal(&d) }); pi != nil {
		add("reencode", "panic", pi.String(), "re-encoding succeeds")
	} else if err != nil || string(b2) != string(b) {
		add("reencode", "differs", fmt.Sprintf("%s (err %v)", b2, err), string(b))
	}
	var s1, s2 string
	if pi := core.Safe(func() { s1, s2 = p.e.String(), d.String() }); pi != nil {
		res.Tags = append(res.Tags, "skipped_upstream_panic")
	} else if s1 != s2 {
		add("print", "differs", s2, s1)
	}
	r1, pi1 := renderBoth(p.e)
	r2, pi2 := renderBoth(&d)
	if pi1 != nil {
		res.Tags = append(res.Tags, "skipped_upstream_panic") // rendering the parser's own tree panics: C01/C04
	} else if pi2 != nil {
		add("render", "panic-after-roundtrip", pi2.String(), r1)
	} else if r1 != r2 {
		add("render", "differs", r2, r1)
	}
	if leafKindsInferable(p.e) && !deepEqual(p.e, &d) {
		add("deepequal", "differs", gostr(&d), gostr(p.e))
	}
	return
}
