//go:build instr

package checks

import (
	"encoding/json"
	"fmt"
	"os"
	"os/exec"
	"reflect"
	"sort"
	"strconv"
	"strings"
	"sync"

	lucene "github.com/grindlemire/go-lucene"
	"github.com/grindlemire/go-lucene/internal/lex"
	"github.com/grindlemire/go-lucene/internal/vsched"
	"github.com/grindlemire/go-lucene/pkg/driver"
	"github.com/grindlemire/go-lucene/pkg/lucene/expr"
	"github.com/grindlemire/go-lucene/pkg/lucene/reduce"
	"github.com/grindlemire/go-lucene/verif/core"
)

// C14 — pure, deterministic and safe for concurrent use.
//
// Case kinds:
//   "seq": Aux = "i,j[,k]" indices into the op-input table: the calls are made in that order in
//       one process; every result must equal the result of the same call made first in a fresh
//       process, shared expressions must be unchanged, package-level variables unchanged.
//   "sched": In = scenario "opA|opB[|opC]#query", Aux = schedule "first;step:thread,step:thread";
//       the threads run under the cooperative scheduler with exactly that schedule; no panic,
//       every thread's result equals its sequential reference, shared expression and globals
//       unchanged. The explorer (unit "explore|...") enumerates every schedule with at most b
//       preemptions and reports violating schedules as "sched" cases.
//   "race": free-running -race complement (not the deciding step).

// the operations of the statement
var c14Ops = []string{"Parse", "ParseDF", "ToPostgres", "ToParam", "Render", "RenderParam", "String", "GoString", "Marshal", "Unmarshal", "Validate", "Customise", "ParseDF2"}

// corpus: every operator and every renderer branch occurs
var c14Corpus = []string{
	`a:b`, `a:5`, `a:1.5`, `a:"q r"`, `a:b*`, `a:/ab+c/`, `a:*`, `a:>5`, `a:>=5`, `a:<b`, `a:<=1.5`,
	`a:[1 TO 5]`, `a:{1 TO 5}`, `a:[* TO 5]`, `a:[1.5 TO *]`, `a:[b TO d]`, `a:(x OR y)`, `a:(1 OR 2 OR 3)`,
	`a:b AND c:d`, `a:b OR c:d`, `NOT a:b`, `+a:b`, `-a:b`, `a:b c:d e:f`, `a:b~`, `a:b~2`, `a:b^`, `a:b^2.5`,
	`x y`, `x AND "y z"`, `x*`, `(a:b OR c:[1 TO 2]) AND NOT d:(p OR q) -e:r* f:/s.t/`,
	`a:it\'s`, `"a" : b`, `a:b AND`, `(`, `a:[1 TO`, `!`, ``,
	// accepted by the grammar but refused by validation (anything cached before the refusal must not come back as a result)
	`a:b:c`, `(a OR b):c*`,
	// float64 values holding whole numbers, and expressions only the constructors build
	`a:[1.5 TO 5.0]`, `a:5.0 OR b:>=2.0`, "api:boost0", "api:fuzzy0", "api:rangefloat", "api:inlist",
	// pairs of different queries that a cache keyed on a normalised form (printed tree, collapsed
	// whitespace, case-folded text, column + shape) would confuse
	`a:1 OR b:2 AND c:3`, `(a:1 OR b:2) AND c:3`, `n:7`, `n:"7"`, `t:"x  y"`, `t:"x y"`, `k:V`, `k:v`,
	`p:{1 TO 5}`, `p:{foo TO bar}`, `p:[1 TO 5]`, `r:(u OR v)`, `r:u OR r:v`,
	// a long value list
	`k:(1 OR 2 OR 3 OR 4 OR 5 OR 6 OR 7 OR 8 OR 9 OR 10 OR 11)`,
	// repeated values inside one list
	`a:(x OR y OR x OR z)`, `a:(1 OR 2 OR 2 OR 3 OR 4)`,
}

// collision scenarios for the scheduler: queries that drive many shared tables at once
var c14SchedQueries = []string{
	`a:(x OR y) AND NOT b:[1 TO 5] AND c:w*`,
	`+p:>=2 AND -q:"r s" AND u:/v.w/ AND (zz:[* TO 9] OR yy:{k TO m})`,
	`a:(x OR y)`,
	// two different long value lists on the same column (shared buffers sized for "big" lists)
	`k:(1 OR 2 OR 3 OR 4 OR 5 OR 6 OR 7 OR 8 OR 9 OR 10 OR 11) AND z:1`,
	`k:(a OR b OR c OR d OR e OR f OR g OR h OR i OR j OR l OR m) AND z:"two"`,
	// a deep one (140 nested ANDs): anything a call counts, pools or limits per level is summed over
	// the calls in flight if it lives in a package-level variable
	c14DeepQuery(140),
	// key words in lower and mixed case (anything folded, interned or cached per word)
	`a:1 and b:2 or not c:3 AND d:[x to y] Or e:5`,
}

func c14DeepQuery(n int) string {
	var sb strings.Builder
	for i := 0; i < n; i++ {
		if i > 0 {
			sb.WriteString(" AND ")
		}
		fmt.Fprintf(&sb, "f%d:%d", i%7, i)
	}
	return sb.String()
}

type opInput struct {
	Op    string
	Query string
}

func c14Table() []opInput {
	var t []opInput
	for _, q := range c14Corpus {
		for _, op := range c14Ops {
			t = append(t, opInput{op, q})
		}
	}
	return t
}

// shared expressions: parsed once per process, shared by every call that takes an expression
var (
	sharedMu    sync.Mutex
	sharedExprs = map[string]*expr.Expression{}
)

func sharedExpr(q string) *expr.Expression {
	sharedMu.Lock()
	defer sharedMu.Unlock()
	if e, ok := sharedExprs[q]; ok {
		return e
	}
	e, err := c14Build(q)
	if err != nil {
		e = nil
	}
	sharedExprs[q] = e
	return e
}

// c14Build: the expression a corpus entry stands for - parsed, or ("api:" entries) built through
// the public constructors with values Parse never produces (zero power / distance, float64 bounds
// holding whole numbers): operations that "normalise" such values in place modify the expression.
func c14Build(q string) (*expr.Expression, error) {
	switch q {
	case "api:boost0":
		return expr.AND(expr.BOOST(expr.Eq("a", "b"), 0.0), expr.Eq("c", 5)), nil
	case "api:fuzzy0":
		return expr.OR(expr.FUZZY(expr.Lit("x"), 0), expr.Lit("y")), nil
	case "api:rangefloat":
		return expr.Rang("a", 1.5, 5.0, true), nil
	case "api:inlist":
		return expr.NOT(expr.IN("a", expr.LIST(expr.Lit("x"), expr.Lit(5.0), expr.Lit(7)))), nil
	}
	return lucene.Parse(q)
}

// one driver per process, shared by every Render / RenderParam call (as lucene.ToPostgres shares
// its package-level driver). Building it inside the threads would also put Go's randomised map
// iteration order (NewPostgresDriver ranges over driver.Shared) on the explored paths.
var c14Driver = driver.NewPostgresDriver()

// c14KeepOn (call sequences only, single-threaded): runOp leaves in c14Keep a view of the value it
// returned (the expression, the parameter slice, the encoded bytes) so that the sequence can look
// at it again after later calls: a result is a value and must not change once returned.
var (
	c14KeepOn bool
	c14Keep   func() string
)

// runOp performs one operation and returns a printable result (panics included).
func runOp(op, q string, shared *expr.Expression) (out string) {
	keep := func(f func() string) {
		if c14KeepOn {
			c14Keep = f
		}
	}
	pi := core.Safe(func() {
		switch op {
		case "Parse":
			e, err := lucene.Parse(q)
			out = fmt.Sprintf("%#v | %v", e, err)
			keep(func() string { return fmt.Sprintf("%#v | %v", e, err) })
		case "ParseDF":
			e, err := lucene.Parse(q, lucene.WithDefaultField("D"))
			out = fmt.Sprintf("%#v | %v", e, err)
			keep(func() string { return fmt.Sprintf("%#v | %v", e, err) })
		case "ParseDF2":
			// the same option with another value: state keyed by the option must not leak between calls
			e, err := lucene.Parse(q, lucene.WithDefaultField("E"))
			out = fmt.Sprintf("%#v | %v", e, err)
			keep(func() string { return fmt.Sprintf("%#v | %v", e, err) })
		case "ToPostgres":
			s, err := lucene.ToPostgres(q)
			out = fmt.Sprintf("%q | %v", s, err)
		case "ToParam":
			s, p, err := lucene.ToParameterizedPostgres(q)
			out = fmt.Sprintf("%q | %#v | %v", s, p, err)
			keep(func() string { return fmt.Sprintf("%q | %#v | %v", s, p, err) })
		case "Render":
			if shared == nil {
				out = "n/a"
				return
			}
			s, err := c14Driver.Render(shared)
			out = fmt.Sprintf("%q | %v", s, err)
		case "RenderParam":
			if shared == nil {
				out = "n/a"
				return
			}
			s, p, err := c14Driver.RenderParam(shared)
			out = fmt.Sprintf("%q | %#v | %v", s, p, err)
			keep(func() string { return fmt.Sprintf("%q | %#v | %v", s, p, err) })
		case "String":
			if shared == nil {
				out = "n/a"
				return
			}
			out = shared.String()
		case "GoString":
			if shared == nil {
				out = "n/a"
				return
			}
			out = shared.GoString()
		case "Marshal":
			if shared == nil {
				out = "n/a"
				return
			}
			b, err := json.Marshal(shared)
			out = fmt.Sprintf("%s | %v", b, err)
			if c14KeepOn {
				// the method called directly, as a user holding the bytes would
				if raw, rerr := shared.MarshalJSON(); rerr == nil {
					keep(func() string { return string(raw) })
				}
			}
		case "Unmarshal":
			if shared == nil {
				out = "n/a"
				return
			}
			b, err := json.Marshal(shared)
			if err != nil {
				out = "n/a"
				return
			}
			var d expr.Expression
			err = json.Unmarshal(b, &d)
			out = fmt.Sprintf("%#v | %v", &d, err)
		case "Validate":
			if shared == nil {
				out = "n/a"
				return
			}
			out = fmt.Sprint(expr.Validate(shared))
		case "Customise":
			// what the README tells users to do: take a driver, put their own functions into its map,
			// render with it. It must not change what any other driver (or ToPostgres) does.
			if shared == nil {
				out = "n/a"
				return
			}
			d := driver.NewPostgresDriver()
			d.RenderFNs[expr.Equals] = func(l, r string) (string, error) { return l + " == " + r, nil }
			d.RenderFNs[expr.Fuzzy] = func(l, r string) (string, error) { return "fuzzy(" + l + ")", nil }
			s, err := d.Render(shared)
			out = fmt.Sprintf("%q | %v", s, err)
		default:
			panic("bad op " + op)
		}
	})
	if pi != nil {
		return "PANIC " + pi.String()
	}
	return out
}

// globalsSnapshot prints every package-level variable of the five library packages (the
// VerifGlobals functions are generated by vinstr from the working tree, so variables added by a
// change are included).
func globalsSnapshot() string {
	all := map[string]map[string]any{
		"lucene": lucene.VerifGlobals(), "lex": lex.VerifGlobals(), "driver": driver.VerifGlobals(),
		"expr": expr.VerifGlobals(), "reduce": reduce.VerifGlobals(),
	}
	var sb strings.Builder
	pkgs := []string{}
	for p := range all {
		pkgs = append(pkgs, p)
	}
	sort.Strings(pkgs)
	for _, p := range pkgs {
		names := []string{}
		for n := range all[p] {
			names = append(names, n)
		}
		sort.Strings(names)
		for _, n := range names {
			v := reflect.ValueOf(all[p][n]).Elem().Interface()
			fmt.Fprintf(&sb, "%s.%s=%s\n", p, n, deepPrint(v))
		}
	}
	return sb.String()
}

func deepPrint(v any) (s string) {
	defer func() {
		if r := recover(); r != nil {
			s = fmt.Sprintf("<unprintable %T>", v)
		}
	}()
	return fmt.Sprintf("%#v", v)
}

// references from fresh processes: result of every op-input when it is the first call
var (
	refOnce sync.Once
	refs    []string
	refErr  error
)

func c14Refs() ([]string, error) {
	refOnce.Do(func() {
		exe, _ := os.Executable()
		out, err := exec.Command(exe, "c14ref").Output()
		if err != nil {
			refErr = fmt.Errorf("c14ref: %v", err)
			return
		}
		if err := json.Unmarshal(out, &refs); err != nil {
			refErr = err
		}
	})
	return refs, refErr
}

// C14RefMain (sub-command c14ref): prints, as JSON, the result of every op-input of the table,
// each computed in its own fresh process (sub-command c14one) so that no call can see the
// effects of another.
func C14RefMain(args []string) int {
	table := c14Table()
	if len(args) == 1 {
		i, _ := strconv.Atoi(args[0])
		oi := table[i]
		fmt.Print(runOp(oi.Op, oi.Query, sharedExpr(oi.Query)))
		return 0
	}
	exe, _ := os.Executable()
	out := make([]string, len(table))
	var wg sync.WaitGroup
	sem := make(chan struct{}, 8)
	for i := range table {
		wg.Add(1)
		go func(i int) {
			defer wg.Done()
			sem <- struct{}{}
			defer func() { <-sem }()
			b, err := exec.Command(exe, "c14ref", strconv.Itoa(i)).Output()
			if err != nil {
				out[i] = "REF-ERROR " + err.Error()
				return
			}
			out[i] = string(b)
		}(i)
	}
	wg.Wait()
	b, _ := json.Marshal(out)
	os.Stdout.Write(b)
	return 0
}

func init() {
	core.ExtraCommands["c14ref"] = C14RefMain
	core.Register(&core.Check{
		ID:    "C14",
		Title: "Pure, deterministic and safe for concurrent use",
		Instr: true,
		Units: func(tier string) []core.Unit {
			var us []core.Unit
			n := len(c14Table())
			for lo := 0; lo < n; lo += 8 {
				us = append(us, core.Unit{Name: fmt.Sprintf("seq2|%d|%d", lo, min(lo+8, n)), Weight: 1})
			}
			// scheduler. unit = explore|<bound>|<granularity>|<query>|<shard>|<of>|<ops...>
			pairs := func(f func(a, b string)) {
				// "Customise" and "ParseDF2" take part in the call sequences and in dedicated scenarios only
				for _, a := range c14Ops[:11] {
					for _, b := range c14Ops[:11] {
						f(a, b)
					}
				}
			}
			heavy := [][2]string{{"ToPostgres", "ToPostgres"}, {"ToParam", "ToParam"}, {"Render", "RenderParam"}, {"Parse", "ParseDF"},
				{"Marshal", "Unmarshal"}, {"ToPostgres", "ToParam"}, {"Render", "Render"}, {"RenderParam", "RenderParam"}, {"String", "GoString"},
				{"Parse", "Parse"}, {"Unmarshal", "Unmarshal"}, {"Validate", "Render"}}
			unit := func(bound int, gran string, qi, shards, w int, ops ...string) {
				for sh := 0; sh < shards; sh++ {
					us = append(us, core.Unit{Name: fmt.Sprintf("explore|%d|%s|%d|%d|%d|%s", bound, gran, qi, sh, shards, strings.Join(ops, "|")), Weight: w})
				}
			}
			// threads on different (long) inputs: shared state keyed by the input must not leak between them.
			// op@k = operation on collision query k
			textOps := []string{"Parse", "ParseDF", "ToPostgres", "ToParam"}
			for _, a := range textOps {
				for _, b := range textOps {
					us = append(us, core.Unit{Name: fmt.Sprintf("explore|1|full|0|0|1|%s@0|%s@1", a, b), Weight: 3})
					if tier == "thorough" || (strings.HasPrefix(a, "To") && strings.HasPrefix(b, "To")) {
						us = append(us, core.Unit{Name: fmt.Sprintf("explore|1|full|0|0|1|%s@1|%s@0|%s@0", a, b, a), Weight: 4})
					}
				}
			}
			for _, a := range []string{"ToPostgres", "ToParam", "Render", "RenderParam", "Marshal"} {
				for _, b := range []string{"ToPostgres", "ToParam", "Render", "RenderParam", "Marshal"} {
					us = append(us, core.Unit{Name: fmt.Sprintf("explore|1|full|0|0|1|%s@3|%s@4", a, b), Weight: 3})
				}
			}
			// deep inputs on both threads, preemptions at the statements that touch package-level variables
			// (operations on the shared parsed expression only: parsing a 140-term query touches the package-level
			// reducer table thousands of times, which is explored on the short queries)
			deepOps := []string{"Render", "RenderParam", "String", "GoString", "Marshal", "Validate"}
			for _, a := range deepOps {
				for _, b := range deepOps {
					unit(1, "globals", 5, 1, 2, a, b)
				}
			}
			for _, o := range [][]string{{"Parse", "Parse"}, {"Parse", "ParseDF"}, {"ToPostgres", "ToParam"}, {"ToParam", "Parse"}} {
				unit(1, "full", 6, 1, 3, o...)
				us = append(us, core.Unit{Name: fmt.Sprintf("explore|1|full|0|0|1|%s@6|%s@0", o[0], o[1]), Weight: 3})
			}
			// the same option with two different values on the two threads (same and different inputs)
			for _, o := range [][]string{{"ParseDF", "ParseDF2"}, {"ParseDF2", "ParseDF"}, {"ParseDF2", "ParseDF2"}, {"ParseDF2", "Parse"}} {
				unit(1, "full", 0, 1, 3, o...)
				unit(2, "mixed", 2, 1, 4, o...)
				us = append(us, core.Unit{Name: fmt.Sprintf("explore|1|full|0|0|1|%s@0|%s@1", o[0], o[1]), Weight: 3})
			}
			trip := [][]string{{"ToPostgres", "ToParam", "Parse"}, {"Render", "RenderParam", "String"}, {"Marshal", "Unmarshal", "Validate"}}
			if tier != "thorough" {
				pairs(func(a, b string) {
					unit(1, "full", 0, 1, 3, a, b)    // 1 preemption anywhere, long query
					unit(2, "mixed", 2, 1, 4, a, b)   // 2 preemptions: first anywhere, second at global-variable statements
					unit(3, "globals", 2, 1, 1, a, b) // 3 preemptions at global-variable statements
				})
				for _, t := range trip {
					unit(1, "full", 2, 2, 4, t...)
				}
			} else {
				pairs(func(a, b string) {
					for qi := 0; qi < 3; qi++ {
						unit(1, "full", qi, 1, 3, a, b)
					}
					unit(2, "mixed", 0, 4, 5, a, b)
					unit(2, "coarse", 2, 4, 5, a, b)
					unit(3, "globals", 0, 1, 1, a, b)
					unit(4, "globals", 2, 1, 1, a, b)
				})
				for _, h := range heavy {
					unit(2, "full", 2, 32, 6, h[0], h[1])
				}
				for _, t := range trip {
					unit(1, "full", 0, 4, 4, t...)
					unit(2, "mixed", 2, 16, 6, t...)
				}
			}
			us = append(us, core.Unit{Name: "race", Weight: 9})
			return us
		},
		Run:    c14Run,
		Eval:   c14Eval,
		Shrink: nil,
		Rule: "E1: every sequence of 2 calls over ops x corpus (11 operations x 39 queries covering every operator and renderer branch) in one process, each result compared with the same call made first in a fresh process, shared expressions and all package-level variables compared before/after; " +
			"E2: for every ordered pair of operations on colliding inputs (same query, same shared *Expression, same package-level driver) every schedule with <= 1 preemption at statement granularity (bound 2 for the collision-heavy pairs; thorough: bound 2 for all pairs; 3 threads at bound 1), under a cooperative scheduler over automatically inserted statement points; " +
			"E3 (complement): the same bodies free-running under -race. states = schedules + call sequences; non-trivial = executions in which at least two threads interleaved or a sequence of >= 2 calls ran; distinct = distinct outcome vectors",
		Assumptions: []string{
			"scheduling granularity is the Go statement; effects below it (torn multi-word writes) and races that change no result within the preemption bound are left to the -race complement",
			"the cooperative hand-offs are happens-before edges, so the race detector is run on a separate free-running build",
		},
		Bounds: func(tier string) map[string]any {
			if tier == "thorough" {
				return map[string]any{"seq_k": 2, "all_121_ordered_pairs": "1 preemption before any statement (3 queries); 2 preemptions: first anywhere, second at global-variable statements (long query); 2 preemptions at function entries + global-variable statements (short query); 3-4 preemptions at global-variable statements",
					"12_heavy_pairs": "2 preemptions before any statement (short query)", "three_threads": "1 preemption anywhere; 2 mixed", "points": int(vsched.NumPoints)}
			}
			return map[string]any{"seq_k": 2, "all_121_ordered_pairs": "1 preemption before any statement (long query); 2 preemptions: first anywhere, second at global-variable statements (short query); 3 preemptions at global-variable statements",
				"three_threads": "1 preemption anywhere (short query)", "points": int(vsched.NumPoints)}
		},
		Deadline: func(tier string) int {
			if tier == "thorough" {
				return 1000
			}
			return 420
		},
	})
}

func c14Run(w *core.Worker, tier, unit string) {
	p := strings.Split(unit, "|")
	switch p[0] {
	case "seq2":
		lo, _ := strconv.Atoi(p[1])
		hi, _ := strconv.Atoi(p[2])
		n := len(c14Table())
		for i := lo; i < hi; i++ {
			for j := 0; j < n; j++ {
				w.Do(core.Case{Kind: "seq", Aux: core.BStr(fmt.Sprintf("%d,%d", i, j))})
			}
		}
	case "explore":
		bound, _ := strconv.Atoi(p[1])
		qi, _ := strconv.Atoi(p[3])
		shardIdx, _ := strconv.Atoi(p[4])
		shardOf, _ := strconv.Atoi(p[5])
		c14Explore(w, p[6:], c14SchedQueries[qi], bound, p[2], shardIdx, shardOf)
	case "race":
		w.Do(core.Case{Kind: "race"})
	}
}

func c14Eval(c core.Case) (res core.Result) {
	add := func(clause, class, obs, exp string) {
		res.Obs = append(res.Obs, core.Obs{Clause: clause, Class: class, Observed: obs, Expected: exp})
	}
	switch c.Kind {
	case "seq":
		refs, err := c14Refs()
		if err != nil {
			res.Tags = append(res.Tags, "reference_unavailable")
			return
		}
		table := c14Table()
		before := globalsSnapshot()
		var idx []int
		for _, s := range strings.Split(string(c.Aux), ",") {
			i, _ := strconv.Atoi(s)
			idx = append(idx, i)
		}
		type kept struct {
			k    int
			op   string
			view func() string
			was  string
		}
		var keeps []kept
		c14KeepOn = true
		defer func() { c14KeepOn, c14Keep = false, nil }()
		for k, i := range idx {
			oi := table[i]
			sh := sharedExpr(oi.Query)
			c14Keep = nil
			got := runOp(oi.Op, oi.Query, sh)
			if c14Keep != nil {
				keeps = append(keeps, kept{k, oi.Op, c14Keep, c14Keep()})
			}
			for _, kp := range keeps {
				if kp.k == k {
					continue
				}
				if now := kp.view(); now != kp.was {
					add("pure", "result-changed-after-return "+kp.op,
						fmt.Sprintf("the value returned by call %d (%s) read %s; after call %d (%s %q) it reads %s", kp.k+1, kp.op, trunc(kp.was, 300), k+1, oi.Op, oi.Query, trunc(now, 300)),
						"a returned value does not change")
					return
				}
			}
			if got != refs[i] {
				add("pure", fmt.Sprintf("result-depends-on-history %s", oi.Op),
					fmt.Sprintf("call %d (%s %q) after %v returned %s", k+1, oi.Op, oi.Query, idx[:k], trunc(got, 300)),
					"the result of the same call made first in a fresh process: "+trunc(refs[i], 300))
				return
			}
			if sh != nil {
				fresh, err := c14Build(oi.Query)
				if err == nil && !reflect.DeepEqual(fresh, sh) {
					add("pure", "shared-expression-modified "+oi.Op, fmt.Sprintf("after %s the shared expression of %q is %s", oi.Op, oi.Query, gostr(sh)), gostr(fresh))
					return
				}
			}
		}
		// a change of package-level state is not a violation by itself (a correct cache or pool is
		// allowed by the statement); it is counted so that a reader sees that hidden state exists
		if after := globalsSnapshot(); after != before {
			res.Tags = append(res.Tags, "calls_that_changed_package_level_state")
		}
		res.Nontrivial = true
		res.Hash = core.Hash64("seq", string(c.Aux))
	case "sched":
		ops, query, first, plan, err := parseSchedCase(c)
		if err != nil {
			panic("C14: bad sched case: " + err.Error())
		}
		seqRef := c14SeqRefs(ops, query)
		before := globalsSnapshot()
		mk, results := c14Bodies(ops, query)
		r := runSchedule(mk, first, plan)
		if os.Getenv("VERIF_C14_DEBUG") != "" {
			fmt.Fprintf(os.Stderr, "steps=%v segs=%+v results=%q\n", r.steps, r.segs, *results)
		}
		res.Nontrivial = true
		if v := c14Judge(ops, query, r, *results, seqRef, before, true); v != nil {
			res.Obs = append(res.Obs, *v)
		}
	case "race":
		exe := core.VerifDir() + "/.work/bin/vrace"
		if _, err := os.Stat(exe); err != nil {
			res.Tags = append(res.Tags, "race_binary_missing")
			return
		}
		cmd := exec.Command(exe)
		cmd.Env = append(os.Environ(), "GORACE=halt_on_error=1 exitcode=66")
		out, err := cmd.CombinedOutput()
		res.Nontrivial = true
		res.Hash = core.Hash64("race")
		if cmd.ProcessState != nil && cmd.ProcessState.ExitCode() == 66 {
			add("race", "data-race "+raceClass(string(out)), trunc(string(out), 1500), "no data race")
		} else if cmd.ProcessState != nil && cmd.ProcessState.ExitCode() == 1 {
			add("race", "free-running result differs", trunc(string(out), 1500), "results identical to a sequential run")
		} else if strings.Contains(string(out), "fatal error: concurrent map") {
			// the runtime's own check for unsynchronised map access got there before the race detector
			add("race", "fatal concurrent map access "+raceClass(string(out)), trunc(string(out), 1500), "no data race")
		} else if err != nil {
			// the complement could not run (harness problem): never a verdict on the library
			res.Tags = append(res.Tags, "race_complement_failed_to_run")
		} else {
			res.Tags = append(res.Tags, "race_complement_ran")
		}
	}
	return
}

func trunc(s string, n int) string {
	if len(s) > n {
		return s[:n] + "…"
	}
	return s
}

func raceClass(out string) string {
	// first library frame of the report
	for _, line := range strings.Split(out, "\n") {
		line = strings.TrimSpace(line)
		if strings.HasPrefix(line, "github.com/grindlemire/go-lucene") && !strings.Contains(line, "/verif/") {
			if i := strings.IndexByte(line, '('); i > 0 {
				line = line[:i]
			}
			return strings.TrimPrefix(line, "github.com/grindlemire/go-lucene")
		}
	}
	return "?"
}

func diffLines(a, b string) string {
	la, lb := strings.Split(a, "\n"), strings.Split(b, "\n")
	var out []string
	for i := 0; i < len(la) || i < len(lb); i++ {
		x, y := "", ""
		if i < len(la) {
			x = la[i]
		}
		if i < len(lb) {
			y = lb[i]
		}
		if x != y {
			out = append(out, trunc(x, 200)+"  =>  "+trunc(y, 200))
			if len(out) > 3 {
				break
			}
		}
	}
	return strings.Join(out, " ; ")
}

// ---------------------------------------------------------------------------------------------
// scheduler scenarios

// opSpec splits "Op@k" (operation on collision query k) from a plain "Op" (on the scenario's query).
func opSpec(spec, query string) (string, string) {
	if i := strings.IndexByte(spec, '@'); i >= 0 {
		k, _ := strconv.Atoi(spec[i+1:])
		return spec[:i], c14SchedQueries[k]
	}
	return spec, query
}

func c14SeqRefs(ops []string, query string) []string {
	refs := make([]string, len(ops))
	for i, spec := range ops {
		op, q := opSpec(spec, query)
		refs[i] = runOp(op, q, sharedExpr(q))
	}
	return refs
}

// c14Bodies: fresh thread bodies writing into a fresh result vector.
func c14Bodies(ops []string, query string) ([]func(), *[]string) {
	results := make([]string, len(ops))
	bodies := make([]func(), len(ops))
	for i, spec := range ops {
		i := i
		op, q := opSpec(spec, query)
		sh := sharedExpr(q)
		bodies[i] = func() { results[i] = runOp(op, q, sh) }
	}
	return bodies, &results
}

func planString(first int, plan []switchAt) string {
	parts := []string{}
	for _, s := range plan {
		parts = append(parts, fmt.Sprintf("%d:%d", s.Step, s.Thread))
	}
	return fmt.Sprintf("%d;%s", first, strings.Join(parts, ","))
}

func parseSchedCase(c core.Case) (ops []string, query string, first int, plan []switchAt, err error) {
	in := string(c.In)
	i := strings.IndexByte(in, '#')
	if i < 0 {
		return nil, "", 0, nil, fmt.Errorf("no # in %q", in)
	}
	ops = strings.Split(in[:i], "|")
	query = in[i+1:]
	a := strings.SplitN(string(c.Aux), ";", 2)
	first, err = strconv.Atoi(a[0])
	if err != nil {
		return
	}
	if len(a) == 2 && a[1] != "" {
		for _, s := range strings.Split(a[1], ",") {
			var st int64
			var th int
			if _, err = fmt.Sscanf(s, "%d:%d", &st, &th); err != nil {
				return
			}
			plan = append(plan, switchAt{st, th})
		}
	}
	return
}

// c14Judge is the per-schedule oracle. full: also compare the globals snapshot.
func c14Judge(ops []string, query string, r *schedRun, results, seqRef []string, before string, full bool) *core.Obs {
	if r.badPlan != "" {
		return &core.Obs{Clause: "deterministic", Class: "schedule-not-reproducible", Observed: r.badPlan + " (the same schedule, started from the same call history, does not execute the same statements twice: behaviour depends on hidden state)", Expected: "executions are functions of their arguments: a recorded schedule can be followed again"}
	}
	for i := range ops {
		if r.panics[i] != nil {
			return &core.Obs{Clause: "concurrent", Class: "panic " + strings.SplitN(ops[i], "@", 2)[0], Observed: fmt.Sprint(r.panics[i]), Expected: "no panic"}
		}
		if results[i] != seqRef[i] {
			return &core.Obs{Clause: "concurrent", Class: "result-differs " + strings.SplitN(ops[i], "@", 2)[0],
				Observed: fmt.Sprintf("thread %d (%s) returned %s", i, ops[i], trunc(results[i], 400)),
				Expected: "its sequential result: " + trunc(seqRef[i], 400)}
		}
	}
	seenQ := map[string]bool{}
	for _, spec := range ops {
		_, q := opSpec(spec, query)
		if seenQ[q] {
			continue
		}
		seenQ[q] = true
		if sh := sharedExpr(q); sh != nil {
			vsched.Hook = nil
			fresh, err := c14Build(q)
			if err == nil && !reflect.DeepEqual(fresh, sh) {
				return &core.Obs{Clause: "concurrent", Class: "shared-expression-modified", Observed: gostr(sh), Expected: gostr(fresh)}
			}
		}
	}
	_ = full
	return nil
}

// granularities: "full" = a preemption may be placed before any statement; "coarse" = only at
// function entries and statements naming a package-level variable; "globals" = only the latter;
// "mixed" = the first preemption anywhere, later ones as "globals".
func pointFilter(gran string) func(id int32, preemptions int) bool {
	return func(id int32, preemptions int) bool {
		if gran == "mixed" && preemptions == 0 {
			return true
		}
		if id < 0 || int(id) >= len(vsched.Points) {
			return true
		}
		p := vsched.Points[id]
		if len(p.Globals) > 0 {
			return true
		}
		return gran == "coarse" && p.Kind == "entry"
	}
}

func c14Explore(w *core.Worker, ops []string, query string, bound int, gran string, shardIdx, shardOf int) {
	seqRef := c14SeqRefs(ops, query) // also warms encoding/json and fmt caches
	seqRef2 := c14SeqRefs(ops, query)
	scenario := strings.Join(ops, "|") + "#" + query
	for i := range seqRef {
		if seqRef[i] != seqRef2[i] {
			w.Do(core.Case{Kind: "sched", In: core.BStr(scenario), Aux: "0;"}) // will be judged as non-deterministic below
			w.Notes = append(w.Notes, "sequential reference of "+ops[i]+" is not reproducible")
			return
		}
	}
	before := globalsSnapshot()
	var results *[]string
	outcomes := map[uint64]struct{}{}
	var interleaved int64
	violated := false
	// the first schedule of the scenario is run twice and must take identical paths
	var firstHash []uint64
	e := &explorer{bound: bound, shardIdx: shardIdx, shardOf: shardOf, coarse: gran != "full", interesting: pointFilter(gran)}
	var preludeObs *core.Obs
	e.bodies = func() []func() {
		// every schedule starts from the same history: the operations run once sequentially first
		// (if the library keeps state between calls, the explored executions would otherwise depend
		// on which schedule happened to run before). The prelude's own results are checked: a wrong
		// one means an earlier schedule left the library in a state that changes later results.
		if preludeObs == nil {
			pre := c14SeqRefs(ops, query)
			for i := range pre {
				if pre[i] != seqRef[i] {
					preludeObs = &core.Obs{Clause: "concurrent", Class: "later-sequential-call-differs " + strings.SplitN(ops[i], "@", 2)[0],
						Observed: "after the previous schedule, a sequential call of " + ops[i] + " returned " + trunc(pre[i], 300),
						Expected: "its result in a fresh sequence: " + trunc(seqRef[i], 300)}
					break
				}
			}
		}
		b, r := c14Bodies(ops, query)
		results = r
		return b
	}
	count := int64(0)
	var prevPlan string
	e.check = func(r *schedRun, first int, plan []switchAt) bool {
		count++
		if preludeObs != nil {
			violated = true
			w.Record(core.Case{Kind: "sched", In: core.BStr(scenario), Aux: core.BStr(prevPlan)}, *preludeObs)
			return false
		}
		prevPlan = planString(first, plan)
		if firstHash == nil {
			firstHash = append([]uint64{}, r.hash...)
			b2, _ := c14Bodies(ops, query)
			r2 := runSchedule(b2, first, plan)
			for i := range r2.hash {
				if r2.hash[i] != r.hash[i] || r2.steps[i] != r.steps[i] {
					w.Notes = append(w.Notes, fmt.Sprintf("replay of the first schedule of %s diverged on thread %d (%d vs %d steps): nondeterminism not owned", scenario, i, r.steps[i], r2.steps[i]))
					w.Inexhaust = "replay divergence"
					return false
				}
			}
		}
		if len(r.segs) > len(ops) {
			interleaved++
		}
		outcomes[core.Hash64(*results...)] = struct{}{}
		full := count%256 == 1
		if v := c14Judge(ops, query, r, *results, seqRef, before, full); v != nil {
			violated = true
			w.Record(core.Case{Kind: "sched", In: core.BStr(scenario), Aux: core.BStr(planString(first, plan))}, *v)
			return false
		}
		return true
	}
	for first := range ops {
		if shardOf > 1 && first != 0 && false {
			continue
		}
		if !e.explore(first, nil, 0, 0) {
			break
		}
	}
	if !violated {
		if after := globalsSnapshot(); after != before {
			w.Count("scenarios_that_changed_package_level_state", 1)
		}
	}
	w.Tick(e.schedules)
	w.Count("schedules", e.schedules)
	w.Count("interleaved_schedules", interleaved)
	if e.stalledRuns > 0 {
		w.Count("schedules_completed_free_running_after_a_stall", e.stalledRuns)
		w.Count("preemptions_skipped_at_known_stall_points", e.skippedStall)
	}
	if len(outcomes) > 1 {
		w.Count("scenarios_with_several_outcomes", 1)
	}
	for h := range outcomes {
		w.Seen(h, func() core.Case {
			return core.Case{Kind: "sched", In: core.BStr(scenario), Aux: core.BStr(fmt.Sprintf("bound=%d shard=%d/%d schedules=%d", bound, shardIdx, shardOf, e.schedules))}
		})
	}
	if e.capped {
		w.Inexhaust = "schedule cap"
	}
}
