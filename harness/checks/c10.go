package checks

import (
	"fmt"
	"strconv"
	"strings"

	lucene "github.com/grindlemire/go-lucene"
	"github.com/grindlemire/go-lucene/pkg/lucene/expr"
	"github.com/grindlemire/go-lucene/verif/core"
	"github.com/grindlemire/go-lucene/verif/enum"
)

// C10 — results are all-or-nothing and accepted trees are well-formed.
//
// Case: Kind "tok"/"bytes", In = input, DF = default field ("" = none).
// Clauses: allornothing (Parse), validate (package's own Validate), shape (independent walk),
// render (ToPostgres / ToParameterizedPostgres result pairs).

func init() {
	core.Register(&core.Check{
		ID:    "C10",
		Title: "Results are all-or-nothing and accepted trees are well-formed",
		Units: func(tier string) []core.Unit {
			n, l := 4, 4
			if tier == "thorough" {
				n, l = 5, 5
			}
			var us []core.Unit
			for _, u := range enum.SeqUnits("tok", "full", len(enum.SigmaFull), n, 2) {
				us = append(us, core.Unit{Name: u})
			}
			for _, u := range enum.SeqUnits("bytes", "lex", len(enum.ByteAlphabets["lex"]), l, 2) {
				us = append(us, core.Unit{Name: u})
			}
			for _, u := range enum.SeqUnits("bytes", "punct", len(enum.ByteAlphabets["punct"]), 3, 1) {
				us = append(us, core.Unit{Name: u})
			}
			for _, a := range []string{"paren", "range", "unary", "bool", "cmp", "like"} {
				k := 6
				if tier == "thorough" || a == "bool" {
					k = 7
				}
				for _, u := range enum.SeqUnits("tok", a, len(enum.Alphabets[a]), k, 2) {
					us = append(us, core.Unit{Name: u})
				}
			}
			us = append(us, editUnits(tier)...)
			us = append(us, frameUnits([]string{"cmp", "like", "bool"}, n+1)...)
			return us
		},
		Run: func(w *core.Worker, tier, unit string) {
			runFlat(w, unit, []core.BStr{"", "D"})
		},
		Eval:   c10Eval,
		Shrink: shrinkFlat,
		Rule: "TOK(Σ_full,N) ∪ TOK(Σ_k,N_k) ∪ BYTES(B_lex,L) ∪ EDIT(1) of depth-1 trees ∪ FRAME(10 contexts x TOK(Σ_cmp/like/bool,N+1)), each x {no default field, default field D}; " +
			"non-trivial = Parse accepted; distinct = distinct accepted trees (by %#v)",
		Assumptions: []string{"inputs beyond the length bounds are not covered", "a panic is counted as skipped_upstream (C01 owns it)"},
		Bounds: func(tier string) map[string]any {
			if tier == "thorough" {
				return map[string]any{"N_full": 5, "N_focused": 7, "L_bytes": 5, "edit": 1}
			}
			return map[string]any{"N_full": 4, "N_focused": 6, "L_bytes": 4, "edit": 1}
		},
		Deadline: func(tier string) int {
			if tier == "thorough" {
				return 1000
			}
			return 300
		},
	})
}

func c10Eval(c core.Case) (res core.Result) {
	in := string(c.In)
	add := func(clause, class, obs, exp string) {
		res.Obs = append(res.Obs, core.Obs{Clause: clause, Class: class, Observed: obs, Expected: exp})
	}
	e, err, pi := parse(in, c.DF)
	if pi != nil {
		res.Tags = append(res.Tags, "skipped_upstream_panic")
		return
	}
	// the same call again: the outcome of Parse does not depend on having been asked before
	if e2, err2, pi2 := parse(in, c.DF); pi2 == nil && ((e2 == nil) != (e == nil) || (err2 == nil) != (err == nil)) {
		add("allornothing", "second-call-differs", fmt.Sprintf("second Parse: expr-nil=%v err=%v", e2 == nil, err2), fmt.Sprintf("as the first: expr-nil=%v err=%v", e == nil, err))
	}
	if (e == nil) == (err == nil) {
		add("allornothing", fmt.Sprintf("expr-nil=%v err-nil=%v", e == nil, err == nil),
			fmt.Sprintf("Parse returned expr=%s err=%v", gostr(e), err), "exactly one of (expression, error)")
	}
	if e != nil && err == nil {
		res.Nontrivial = true
		res.Hash = treeHash(e)
		var verr error
		if pi := core.Safe(func() { verr = expr.Validate(e) }); pi != nil {
			res.Tags = append(res.Tags, "skipped_upstream_panic")
		} else if verr != nil {
			add("validate", "validate-fails", fmt.Sprintf("Validate: %v on %s", verr, gostr(e)), "returned expression passes Validate")
		}
		if why := shapeCheck(e, true); why != "" {
			add("shape", why, fmt.Sprintf("%s in %s", why, gostr(e)), "well-formed tree")
		}
	}
	// renderers
	var s string
	var rerr error
	call := func(f func()) bool {
		if pi := core.Safe(f); pi != nil {
			res.Tags = append(res.Tags, "skipped_upstream_panic")
			return false
		}
		return true
	}
	if call(func() {
		if c.DF != "" {
			s, rerr = lucene.ToPostgres(in, lucene.WithDefaultField(string(c.DF)))
		} else {
			s, rerr = lucene.ToPostgres(in)
		}
	}) {
		if !((s != "" && rerr == nil) || (s == "" && rerr != nil)) {
			add("render", fmt.Sprintf("ToPostgres empty=%v err-nil=%v", s == "", rerr == nil),
				fmt.Sprintf("ToPostgres returned %q, %v", s, rerr), "non-empty string with nil error, or empty string with an error")
		}
	}
	var params []any
	if call(func() {
		if c.DF != "" {
			s, params, rerr = lucene.ToParameterizedPostgres(in, lucene.WithDefaultField(string(c.DF)))
		} else {
			s, params, rerr = lucene.ToParameterizedPostgres(in)
		}
	}) {
		_ = params
		if rerr != nil && s != "" {
			add("render", "ToParameterizedPostgres sql-with-error",
				fmt.Sprintf("ToParameterizedPostgres returned %q, %v", s, rerr), "empty SQL whenever an error is returned")
		}
	}
	return
}

func isScalar(v any) bool {
	switch v.(type) {
	case string, expr.Column, int, float64, bool:
		return true
	}
	return false
}

func isTermLeaf(v any) bool {
	e, ok := v.(*expr.Expression)
	if !ok || e == nil {
		return false
	}
	if e.Op != expr.Literal && e.Op != expr.Wild && e.Op != expr.Regexp {
		return false
	}
	return isScalar(e.Left) && e.Right == nil
}

// shapeCheck is the independent walk of the statement's shape list. It returns "" or the first
// broken rule.
func shapeCheck(e *expr.Expression, root bool) string {
	if e == nil {
		return "nil expression node"
	}
	sub := func(v any, what string) string {
		x, ok := v.(*expr.Expression)
		if !ok || x == nil {
			return fmt.Sprintf("%s of %v is not an expression (%T)", what, e.Op, v)
		}
		return shapeCheck(x, false)
	}
	switch e.Op {
	case expr.Literal, expr.Wild, expr.Regexp:
		if !isScalar(e.Left) {
			return fmt.Sprintf("%v leaf holds %T", e.Op, e.Left)
		}
		if e.Right != nil {
			return fmt.Sprintf("%v leaf has a right side", e.Op)
		}
		return ""
	case expr.And, expr.Or:
		if e.Left == nil || e.Right == nil {
			return fmt.Sprintf("%v lacks an operand", e.Op)
		}
		if w := sub(e.Left, "left"); w != "" {
			return w
		}
		return sub(e.Right, "right")
	case expr.Not, expr.Must, expr.MustNot, expr.Fuzzy, expr.Boost:
		if e.Right != nil {
			return fmt.Sprintf("unary %v has two operands", e.Op)
		}
		return sub(e.Left, "operand")
	case expr.Equals, expr.Greater, expr.Less, expr.GreaterEq, expr.LessEq:
		if !isTermLeaf(e.Left) {
			return fmt.Sprintf("field position of %v is not a single term", e.Op)
		}
		return sub(e.Right, "value")
	case expr.Like:
		if !isTermLeaf(e.Left) {
			return "field position of LIKE is not a single term"
		}
		r, ok := e.Right.(*expr.Expression)
		if !ok || r == nil || (r.Op != expr.Wild && r.Op != expr.Regexp) || !isTermLeaf(r) {
			return "LIKE without a pattern on the right"
		}
		return ""
	case expr.In:
		if !isTermLeaf(e.Left) {
			return "field position of IN is not a single term"
		}
		r, ok := e.Right.(*expr.Expression)
		if !ok || r == nil || r.Op != expr.List {
			return "IN without a list on the right"
		}
		items, ok := r.Left.([]*expr.Expression)
		if !ok {
			return fmt.Sprintf("LIST holds %T", r.Left)
		}
		if len(items) < 2 {
			return fmt.Sprintf("value list with %d values", len(items))
		}
		for _, it := range items {
			if it == nil || it.Op != expr.Literal || !isScalar(it.Left) || it.Right != nil {
				return "value list element is not a plain value"
			}
		}
		return ""
	case expr.Range:
		if !isTermLeaf(e.Left) {
			return "field position of RANGE is not a single term"
		}
		b, ok := e.Right.(*expr.RangeBoundary)
		if !ok || b == nil {
			return fmt.Sprintf("RANGE right side is %T", e.Right)
		}
		if !isTermLeaf(b.Min) {
			return "range lower bound is not a single term"
		}
		if !isTermLeaf(b.Max) {
			return "range upper bound is not a single term"
		}
		return ""
	case expr.List:
		return "LIST outside IN"
	default:
		return fmt.Sprintf("operator %d (%v) is not a query operator", int(e.Op), e.Op)
	}
}

// runFlat runs a TOK / BYTES / EDIT unit, one case per input and default-field option.
func runFlat(w *core.Worker, unit string, dfs []core.BStr) {
	forEachFlat(unit, func(kind, text string) {
		if w.Flooded() {
			return
		}
		for _, df := range dfs {
			w.Do(core.Case{Kind: kind, In: core.BStr(text), DF: df})
		}
	})
}

// flatFrames: contexts in which a short token sequence is embedded, so that what is rejected (or
// accepted) on its own is also seen as a comparison value, a field's value group, a range bound,
// an operand of a prefix / suffix / binary operator.
var flatFrames = []string{"a : > ( %s )", "a : ( %s )", "a : [ %s TO b ]", "NOT ( %s )", "( %s ) AND b", "b OR %s", "a : < = ( ( %s ) )", "+ ( %s ) ~ 2", "( %s ) : > = 5", "( %s ) : < 5"}

func frameUnits(alphas []string, n int) []core.Unit {
	var us []core.Unit
	for k := range flatFrames {
		for _, a := range alphas {
			for _, u := range enum.SeqUnits("tok", a, len(enum.Alphabets[a]), n, 1) {
				us = append(us, core.Unit{Name: fmt.Sprintf("frame|%d|%s", k, u)})
			}
		}
	}
	return us
}

// forEachFlat enumerates the inputs of a flat unit (tok|..., bytes|..., edit|...).
func forEachFlat(unit string, f func(kind, text string)) {
	switch {
	case len(unit) >= 4 && unit[:4] == "tok|":
		alpha := enum.UnitAlphabet(unit)
		enum.EnumSeqUnit(unit, len(alpha), func(seq []int) { f("tok", enum.Join(alpha, seq, " ")) })
	case len(unit) >= 6 && unit[:6] == "bytes|":
		alpha := enum.UnitAlphabet(unit)
		enum.EnumSeqUnit(unit, len(alpha), func(seq []int) { f("bytes", enum.Join(alpha, seq, "")) })
	case len(unit) >= 5 && unit[:5] == "edit|":
		enumEditUnit(unit, func(text string) { f("tok", text) })
	case len(unit) >= 6 && unit[:6] == "frame|":
		// "frame|<k>|<flat unit>": every input of the inner unit placed in context k
		p := strings.SplitN(unit, "|", 3)
		k, _ := strconv.Atoi(p[1])
		forEachFlat(p[2], func(kind, text string) { f(kind, fmt.Sprintf(flatFrames[k], text)) })
	default:
		panic("bad flat unit " + unit)
	}
}

func shrinkFlat(c core.Case) []core.Case {
	if c.Kind == "bytes" {
		return shrinkBytes(c)
	}
	return shrinkTokens(c)
}
