//go:build !instr

package sqlref

import (
	"fmt"
	"math/big"
	"sort"
	"strings"

	"github.com/grindlemire/go-lucene/verif/qast"
)

// ---------------------------------------------------------------------------------------------
// Lucene semantics of the filterable fragment: the meaning of a harness AST on one row.

func valueOf(v qast.Value) (Value, error) {
	switch v.Kind {
	case qast.VInt, qast.VFloat:
		r, ok := new(big.Rat).SetString(v.Text)
		if !ok {
			return Value{}, fmt.Errorf("bad number %q", v.Text)
		}
		return NumV(r), nil
	case qast.VWord:
		return StrV(qast.Unescape(v.Text)), nil
	case qast.VQuoted:
		return StrV(v.Text), nil
	}
	return Value{}, &Outside{"value kind " + v.Kind}
}

// LeafMeaning evaluates one fielded leaf on a row.
func LeafMeaning(l *qast.Leaf, row map[string]Value) (bool, error) {
	x, ok := row[l.Field]
	if !ok {
		return false, &Outside{"row has no field " + l.Field}
	}
	cmp := func(v qast.Value) (int, error) {
		y, err := valueOf(v)
		if err != nil {
			return 0, err
		}
		return Compare(x, y)
	}
	switch l.Kind {
	case qast.LEq:
		if l.Val.Kind == qast.VWild {
			if x.IsNum {
				return false, &Outside{"pattern on a number"}
			}
			return GlobMatchEscaped(x.Str, l.Val.Text), nil
		}
		c, err := cmp(l.Val)
		return c == 0, err
	case qast.LGt:
		c, err := cmp(l.Val)
		return c > 0, err
	case qast.LGe:
		c, err := cmp(l.Val)
		return c >= 0, err
	case qast.LLt:
		c, err := cmp(l.Val)
		return c < 0, err
	case qast.LLe:
		c, err := cmp(l.Val)
		return c <= 0, err
	case qast.LRange:
		res := true
		if l.Lo.Kind != qast.VStar {
			c, err := cmp(l.Lo)
			if err != nil {
				return false, err
			}
			if l.Incl {
				res = res && c >= 0
			} else {
				res = res && c > 0
			}
		}
		if l.Hi.Kind != qast.VStar {
			c, err := cmp(l.Hi)
			if err != nil {
				return false, err
			}
			if l.Incl {
				res = res && c <= 0
			} else {
				res = res && c < 0
			}
		}
		return res, nil
	case qast.LList:
		for _, v := range l.List {
			c, err := cmp(v)
			if err != nil {
				return false, err
			}
			if c == 0 {
				return true, nil
			}
		}
		return false, nil
	}
	return false, &Outside{"leaf kind " + l.Kind}
}

// Combine evaluates the Boolean structure of a tree given the truth value of each leaf:
// +x means x, -x means NOT x.
func Combine(n *qast.Node, leaf func(*qast.Leaf) (bool, error)) (bool, error) {
	switch n.Op {
	case qast.OLeaf:
		return leaf(n.Leaf)
	case qast.OAnd, qast.OOr:
		a, err := Combine(n.L, leaf)
		if err != nil {
			return false, err
		}
		b, err := Combine(n.R, leaf)
		if err != nil {
			return false, err
		}
		if n.Op == qast.OAnd {
			return a && b, nil
		}
		return a || b, nil
	case qast.ONot, qast.OMustN:
		a, err := Combine(n.L, leaf)
		return !a, err
	case qast.OMust:
		return Combine(n.L, leaf)
	}
	return false, &Outside{"operator " + n.Op}
}

// ---------------------------------------------------------------------------------------------
// Probe rows: at least one point in every region the query's constants cut out and on every
// boundary.

type Probe struct {
	seen map[string]bool
	nums map[string][]*big.Rat
	strs map[string][]string
	pats map[string][]string
}

func NewProbe() *Probe {
	return &Probe{seen: map[string]bool{}, nums: map[string][]*big.Rat{}, strs: map[string][]string{}, pats: map[string][]string{}}
}

func (p *Probe) AddValue(field string, v qast.Value) {
	switch v.Kind {
	case qast.VInt, qast.VFloat:
		if r, ok := new(big.Rat).SetString(v.Text); ok {
			p.nums[field] = append(p.nums[field], r)
		}
	case qast.VWord:
		p.strs[field] = append(p.strs[field], qast.Unescape(v.Text))
	case qast.VQuoted:
		p.strs[field] = append(p.strs[field], v.Text)
	case qast.VWild:
		p.pats[field] = append(p.pats[field], v.Text)
	}
}

func (p *Probe) AddLeaf(l *qast.Leaf) {
	p.seen[l.Field] = true
	for _, v := range append([]qast.Value{l.Val, l.Lo, l.Hi}, l.List...) {
		if v.Kind != "" {
			p.AddValue(l.Field, v)
		}
	}
}

func (p *Probe) AddTree(n *qast.Node) {
	qast.Walk(n, func(x *qast.Node) {
		if x.Op == qast.OLeaf {
			p.AddLeaf(x.Leaf)
		}
	})
}

// AddSQL adds the constants of a read filter: every constant is attributed to every column (the
// reader does not track which column a constant is compared with; over-approximation only adds
// rows). Patterns are recognised by % and _.
func (p *Probe) AddSQL(r *Read, params []Value) {
	cols := map[string]bool{}
	for _, c := range r.Columns {
		cols[c] = true
	}
	for c := range cols {
		p.seen[c] = true
		for _, n := range r.Numbers {
			p.nums[c] = append(p.nums[c], n.Num)
		}
		for _, s := range r.Strings {
			p.addSQLString(c, s)
		}
		for _, v := range params {
			if v.IsNum {
				p.nums[c] = append(p.nums[c], v.Num)
			} else {
				p.addSQLString(c, v.Str)
			}
		}
	}
}

func (p *Probe) addSQLString(c, s string) {
	p.strs[c] = append(p.strs[c], s)
	if strings.ContainsAny(s, "%_") {
		pat := strings.NewReplacer("%", "*", "_", "?").Replace(s)
		p.pats[c] = append(p.pats[c], pat)
	}
}

func (p *Probe) Fields() []string {
	m := map[string]bool{}
	for f := range p.seen {
		m[f] = true
	}
	for f := range p.nums {
		m[f] = true
	}
	for f := range p.strs {
		m[f] = true
	}
	for f := range p.pats {
		m[f] = true
	}
	var out []string
	for f := range m {
		out = append(out, f)
	}
	sort.Strings(out)
	return out
}

func (p *Probe) numCandidates(field string) []Value {
	cs := p.nums[field]
	// -1, 0, 1 are always probed (a query without numeric constants still cuts the line somewhere
	// if the renderer invents one)
	sorted := append([]*big.Rat{big.NewRat(-1, 1), big.NewRat(0, 1), big.NewRat(1, 1)}, cs...)
	sort.Slice(sorted, func(i, j int) bool { return sorted[i].Cmp(sorted[j]) < 0 })
	// delta = half the smallest positive gap (1/2 if there is none)
	delta := big.NewRat(1, 2)
	for i := 1; i < len(sorted); i++ {
		g := new(big.Rat).Sub(sorted[i], sorted[i-1])
		if g.Sign() > 0 {
			h := new(big.Rat).Quo(g, big.NewRat(2, 1))
			if h.Cmp(delta) < 0 {
				delta = h
			}
		}
	}
	seen := map[string]bool{}
	var out []Value
	add := func(r *big.Rat) {
		k := r.RatString()
		if !seen[k] {
			seen[k] = true
			out = append(out, NumV(r))
		}
	}
	one := big.NewRat(1, 1)
	for _, c := range sorted {
		add(new(big.Rat).Sub(c, one))
		add(new(big.Rat).Sub(c, delta))
		add(c)
		add(new(big.Rat).Add(c, delta))
		add(new(big.Rat).Add(c, one))
	}
	add(big.NewRat(0, 1))
	return out
}

func (p *Probe) strCandidates(field string) []Value {
	seen := map[string]bool{}
	var out []Value
	add := func(s string) {
		if !seen[s] {
			seen[s] = true
			out = append(out, StrV(s))
		}
	}
	add("")
	add("~~outside~~")
	for _, s := range p.strs[field] {
		add(s)
		add(s + "!")
		add(s + "a")
		if len(s) > 0 {
			add(s[:len(s)-1])
			b := []byte(s)
			if b[len(b)-1] > 1 {
				b[len(b)-1]--
				add(string(b) + "zz")
			}
			b = []byte(s)
			if b[len(b)-1] < 0x7e {
				b[len(b)-1]++
				add(string(b))
			}
		}
	}
	for _, pat := range p.pats[field] {
		for _, inst := range instantiate(pat) {
			add(inst)
			r := []rune(inst)
			for i := range r {
				// drop one char, substitute one char
				add(string(append(append([]rune{}, r[:i]...), r[i+1:]...)))
				sub := append([]rune{}, r...)
				if sub[i] != 'z' {
					sub[i] = 'z'
				} else {
					sub[i] = 'y'
				}
				add(string(sub))
			}
			add(inst + "z")
			add("z" + inst)
		}
	}
	if len(out) > 60 {
		out = out[:60]
	}
	return out
}

// GlobMatchEscaped: Lucene wildcard pattern as typed in a bare word: a backslash makes the next
// character literal, * matches any run, ? any one character.
func GlobMatchEscaped(s, pat string) bool {
	type el struct {
		r    rune
		kind byte // 'l' literal, '*' many, '?' one
	}
	var els []el
	rs := []rune(pat)
	for i := 0; i < len(rs); i++ {
		switch {
		case rs[i] == '\\' && i+1 < len(rs):
			i++
			els = append(els, el{rs[i], 'l'})
		case rs[i] == '*':
			els = append(els, el{0, '*'})
		case rs[i] == '?':
			els = append(els, el{0, '?'})
		default:
			els = append(els, el{rs[i], 'l'})
		}
	}
	sr := []rune(s)
	var rec func(si, pi int) bool
	rec = func(si, pi int) bool {
		for pi < len(els) {
			e := els[pi]
			switch e.kind {
			case '*':
				for k := si; k <= len(sr); k++ {
					if rec(k, pi+1) {
						return true
					}
				}
				return false
			case '?':
				if si >= len(sr) {
					return false
				}
			default:
				if si >= len(sr) || sr[si] != e.r {
					return false
				}
			}
			si++
			pi++
		}
		return si == len(sr)
	}
	return rec(0, 0)
}

func instantiate(pat string) []string {
	// (escapes: the escaped character is a literal)
	if strings.Contains(pat, `\`) {
		var lit []rune
		rs := []rune(pat)
		outs := []string{""}
		_ = lit
		for i := 0; i < len(rs); i++ {
			var alts []string
			switch {
			case rs[i] == '\\' && i+1 < len(rs):
				i++
				alts = []string{string(rs[i])}
			case rs[i] == '*':
				alts = []string{"", "q", "qq"}
			case rs[i] == '?':
				alts = []string{"q"}
			default:
				alts = []string{string(rs[i])}
			}
			var next []string
			for _, o := range outs {
				for _, a := range alts {
					next = append(next, o+a)
				}
			}
			outs = next
			if len(outs) > 27 {
				outs = outs[:27]
			}
		}
		return outs
	}
	outs := []string{""}
	for _, r := range pat {
		var next []string
		for _, o := range outs {
			switch r {
			case '*':
				next = append(next, o, o+"x", o+"xy")
			case '?':
				next = append(next, o+"x")
			default:
				next = append(next, o+string(r))
			}
		}
		outs = next
		if len(outs) > 27 {
			outs = outs[:27]
		}
	}
	return outs
}

// Rows builds the cross product of per-field candidates. types: field -> "num" | "str"; a field
// without a declared type gets the type for which it has constants (numbers win).
func (p *Probe) Rows(types map[string]string, cap int) []map[string]Value {
	fields := p.Fields()
	cands := make([][]Value, len(fields))
	for i, f := range fields {
		t := types[f]
		if t == "" {
			if len(p.nums[f]) > 0 {
				t = "num"
			} else {
				t = "str"
			}
		}
		if t == "num" {
			cands[i] = p.numCandidates(f)
		} else {
			cands[i] = p.strCandidates(f)
			if len(cands[i]) == 0 {
				cands[i] = []Value{StrV("")}
			}
		}
	}
	rows := []map[string]Value{{}}
	for i, f := range fields {
		var next []map[string]Value
		for _, r := range rows {
			for _, v := range cands[i] {
				n := map[string]Value{}
				for k, x := range r {
					n[k] = x
				}
				n[f] = v
				next = append(next, n)
				if cap > 0 && len(next) >= cap {
					break
				}
			}
			if cap > 0 && len(next) >= cap {
				break
			}
		}
		rows = next
	}
	return rows
}

func RowString(r map[string]Value) string {
	keys := []string{}
	for k := range r {
		keys = append(keys, k)
	}
	sort.Strings(keys)
	var parts []string
	for _, k := range keys {
		parts = append(parts, k+"="+r[k].String())
	}
	return "{" + strings.Join(parts, " ") + "}"
}
