package checks

import "testing"

func TestC13Reps(t *testing.T) {
	all, ok := c13Reps()
	t.Logf("all=%d ok=%d coarse=%d", len(all), len(ok), len(repsCoarse))
	n := 0
	depth1Docs(func(string) { n++ })
	t.Logf("depth1 docs=%d", n)
}
