package checks

import (
	"encoding/json"
	"fmt"
	"sort"
	"strings"
	"sync"

	"github.com/grindlemire/go-lucene/pkg/driver"
	"github.com/grindlemire/go-lucene/pkg/lucene/expr"
	"github.com/grindlemire/go-lucene/verif/core"
	"github.com/grindlemire/go-lucene/verif/enum"
)

// C13 — decoding untrusted JSON is safe, and validation guards rendering.
//
// Case: Kind "doc"; In = the bytes handed to json.Unmarshal(&expr.Expression{}).
//   decode : Unmarshal returns (no panic)
//   guard  : if it succeeded and Validate passes, String(), GoString(), json.Marshal, Render and
//            RenderParam all return (no panic); a panic inside Validate itself is reported too.

var jsonByteAlphabet = []string{"{", "}", "[", "]", `"`, ":", ",", "a", "1", "-", ".", "e", `\`, " ",
	"null", "true", `"left"`, `"operator"`, `"right"`, `"min"`, `"max"`}

var jsonValues = []string{`"min"`, `"max"`, `"left"`, `"\"min"`, `"operator"`, `""`, `"a"`, `"*"`, `"a*"`, `"/r/"`, `"/"`, `"/abc/"`, `"1,2"`, `"it's"`, `["it's"]`, `"a\u0000"`, `0`, `1`, `-1`, `1.5`, `1e400`, `true`, `null`,
	`[]`, `["a"]`, `[1,"b"]`, `[[1]]`, `[{"left":"a","operator":"LITERAL"}]`, `{}`}

var jsonOps = []string{"AND", "OR", "EQUALS", "LIKE", "NOT", "RANGE", "MUST", "MUST_NOT", "BOOST", "FUZZY", "LITERAL", "WILD", "REGEXP",
	"GREATER", "LESS", "GREATER_EQ", "LESS_EQ", "IN", "LIST", "", "BOGUS", "\x00missing"}

var jsonExtras = []string{``, `"distance":2`, `"distance":"x"`, `"distance":-1`, `"power":2.5`, `"power":"x"`, `"power":-1`, `"extra":1`, `"boundaries":{"min":1,"max":2}`}

func jsonBoundaries() []string {
	vals := []string{"\x00missing", `1`, `"a"`, `"*"`, `""`, `1.5`, `null`, `{"left":"a","operator":"NOT"}`, `[1]`, `"it's"`, `["it's","b"]`, `{"min":1}`, `{"min":1,"max":2}`}
	var out []string
	for _, mn := range vals {
		for _, mx := range vals {
			for _, inc := range []string{"", `,"inclusive":true`, `,"inclusive":"x"`} {
				var parts []string
				if mn != "\x00missing" {
					parts = append(parts, `"min":`+mn)
				}
				if mx != "\x00missing" {
					parts = append(parts, `"max":`+mx)
				}
				out = append(out, "{"+strings.Join(parts, ",")+inc+"}")
			}
		}
	}
	return out
}

func mkDoc(left, op, right, extra string) string {
	var parts []string
	if left != "\x00missing" {
		parts = append(parts, `"left":`+left)
	}
	if op != "\x00missing" {
		b, _ := json.Marshal(op)
		parts = append(parts, `"operator":`+string(b))
	}
	if right != "\x00missing" {
		parts = append(parts, `"right":`+right)
	}
	if extra != "" {
		parts = append(parts, extra)
	}
	return "{" + strings.Join(parts, ",") + "}"
}

// depth-1 documents: children are plain values (or boundary objects on the right).
func depth1Docs(f func(doc string)) {
	lefts := append([]string{"\x00missing"}, jsonValues...)
	rights := append(append([]string{"\x00missing"}, jsonValues...), jsonBoundaries()...)
	for _, op := range jsonOps {
		for _, l := range lefts {
			for _, r := range rights {
				f(mkDoc(l, op, r, ""))
			}
		}
	}
	// extras on a reduced right set
	for _, op := range jsonOps {
		for _, l := range []string{`"a"`, `1`, "\x00missing"} {
			for _, r := range []string{"\x00missing", `"b"`, `{"min":1,"max":2}`} {
				for _, x := range jsonExtras[1:] {
					f(mkDoc(l, op, r, x))
				}
			}
		}
	}
}

// shapeSig abstracts a decoded document to what decoder, validators and renderers branch on.
func shapeSig(doc string) string {
	var e expr.Expression
	var err error
	if pi := core.Safe(func() { err = json.Unmarshal([]byte(doc), &e) }); pi != nil {
		return "panic"
	}
	if err != nil {
		return "error"
	}
	valid := "?"
	core.Safe(func() {
		if expr.Validate(&e) == nil {
			valid = "valid"
		} else {
			valid = "invalid"
		}
	})
	var sig func(v any, depth int) string
	strClass := func(s string) string {
		switch {
		case s == "":
			return "empty"
		case s == "*":
			return "star"
		case len(s) >= 1 && s[0] == '/' && s[len(s)-1] == '/':
			if len(s) < 4 {
				return "reS"
			}
			return "reL"
		case strings.Contains(s, ","):
			return "comma"
		case strings.ContainsRune(s, 0):
			return "nul"
		case strings.ContainsAny(s, "*?"):
			return "wild"
		}
		if _, err := fmt.Sscanf(s, "%f", new(float64)); err == nil {
			return "num"
		}
		return "str"
	}
	sig = func(v any, depth int) string {
		switch x := v.(type) {
		case nil:
			return "nil"
		case *expr.Expression:
			if x == nil {
				return "nilexpr"
			}
			if depth == 0 {
				return "E:" + x.Op.String()
			}
			return fmt.Sprintf("E:%d(%s,%s)", int(x.Op), sig(x.Left, depth-1), sig(x.Right, depth-1))
		case []*expr.Expression:
			if len(x) == 0 {
				return "list0"
			}
			return fmt.Sprintf("list%d[%s]", min(len(x), 2), sig(x[0], 0))
		case *expr.RangeBoundary:
			if x == nil {
				return "nilB"
			}
			return fmt.Sprintf("B(%s,%s,%v)", sig(x.Min, 0), sig(x.Max, 0), x.Inclusive)
		case string:
			return "s:" + strClass(x)
		case expr.Column:
			return "c:" + strClass(string(x))
		default:
			return fmt.Sprintf("%T", v)
		}
	}
	// how the document renders (what a parent's render function would be handed)
	rclass := "-"
	if valid == "valid" {
		d := driver.NewPostgresDriver()
		core.Safe(func() {
			_, err := d.Render(&e)
			_, params, perr := d.RenderParam(&e)
			rclass = fmt.Sprintf("r%v,p%v,n%d", err == nil, perr == nil, min(len(params), 2))
			if len(params) > 0 {
				rclass += fmt.Sprintf(",%T", params[0])
			}
		})
	}
	return valid + "|" + sig(&e, 1) + "|" + rclass
}

var (
	repsOnce   sync.Once
	repsAll    []string // one depth-1 document per shape signature
	repsOK     []string // those that decode and validate
	repsCoarse []string // one per coarse signature (string classes and render class dropped)
)

// coarseSig: validity + operator + kind of the two sides (no string classes, no render class).
func coarseSig(doc string) string {
	var e expr.Expression
	var err error
	if pi := core.Safe(func() { err = json.Unmarshal([]byte(doc), &e) }); pi != nil || err != nil {
		return "undecodable"
	}
	valid := false
	core.Safe(func() { valid = expr.Validate(&e) == nil })
	kind := func(v any) string {
		switch x := v.(type) {
		case nil:
			return "nil"
		case *expr.Expression:
			if x == nil {
				return "nil"
			}
			if x.Op == expr.Literal || x.Op == expr.Wild || x.Op == expr.Regexp {
				return fmt.Sprintf("leaf:%T", x.Left)
			}
			return "expr"
		case []*expr.Expression:
			return "list"
		case *expr.RangeBoundary:
			return "boundary"
		}
		return fmt.Sprintf("%T", v)
	}
	return fmt.Sprintf("%v|%v|%s|%s", valid, e.Op, kind(e.Left), kind(e.Right))
}

func c13Reps() ([]string, []string) {
	repsOnce.Do(func() {
		seen := map[string]string{}
		coarse := map[string]string{}
		depth1Docs(func(doc string) {
			s := shapeSig(doc)
			if _, ok := seen[s]; !ok {
				seen[s] = doc
			}
			if s != "panic" && s != "error" {
				cs := coarseSig(doc)
				if _, ok := coarse[cs]; !ok {
					coarse[cs] = doc
				}
			}
		})
		ck := []string{}
		for k := range coarse {
			ck = append(ck, k)
		}
		sort.Strings(ck)
		for _, k := range ck {
			repsCoarse = append(repsCoarse, coarse[k])
		}
		keys := []string{}
		for k := range seen {
			keys = append(keys, k)
		}
		sort.Strings(keys)
		for _, k := range keys {
			if k == "panic" || k == "error" {
				continue
			}
			repsAll = append(repsAll, seen[k])
			if strings.HasPrefix(k, "valid|") {
				repsOK = append(repsOK, seen[k])
			}
		}
	})
	return repsAll, repsOK
}

// c13Wrappers: one level of nesting; %s is the buried document. Two alternate per level.
var c13Wrappers = [][2]string{
	{`{"left":%s,"operator":"NOT"}`, `{"left":%s,"operator":"NOT"}`},
	{`{"left":"a","operator":"AND","right":%s}`, `{"left":"a","operator":"AND","right":%s}`},
	{`{"left":%s,"operator":"OR","right":"b"}`, `{"left":%s,"operator":"OR","right":"b"}`},
	{`{"left":%s,"operator":"MUST"}`, `{"left":{"left":"a","operator":"EQUALS","right":"b"},"operator":"AND","right":%s}`},
	// positions a validator may take for granted: an element of a value list, a range bound, an array
	{`{"left":"a","operator":"IN","right":{"left":["x",%s],"operator":"LIST"}}`, `{"left":%s,"operator":"NOT"}`},
	{`{"left":"a","operator":"RANGE","right":{"min":%s,"max":1,"inclusive":true}}`, `{"left":%s,"operator":"NOT"}`},
	{`{"left":[%s],"operator":"LIST"}`, `{"left":"a","operator":"IN","right":%s}`},
}

// depths just beyond the exhaustive depth 2, around powers of two, and one far beyond any
// plausible recursion guard
var c13Depths = []int{1, 2, 3, 4, 7, 16, 33, 64, 129, 257, 1025}

func nestDoc(core string, wr [2]string, n int) string {
	// built inside-out without Sprintf re-scanning the growing document
	var pre, post []string
	for i := 0; i < n; i++ {
		t := wr[i%2]
		k := strings.Index(t, "%s")
		pre = append(pre, t[:k])
		post = append(post, t[k+2:])
	}
	var sb strings.Builder
	for i := 0; i < n; i++ {
		sb.WriteString(pre[i])
	}
	sb.WriteString(core)
	for i := n - 1; i >= 0; i-- {
		sb.WriteString(post[i])
	}
	return sb.String()
}

var (
	dangerousOnce  sync.Once
	dangerousCores []string
)

// c13DangerousCores: depth-1 documents that decode, fail Validate, and make one of the five
// operations panic when it is called regardless — one per (operator, operation, panic class).
// Recomputed from the implementation on every run.
func c13DangerousCores() []string {
	dangerousOnce.Do(func() {
		seen := map[string]bool{}
		d := driver.NewPostgresDriver()
		depth1Docs(func(doc string) {
			var e expr.Expression
			var err error
			if pi := core.Safe(func() { err = json.Unmarshal([]byte(doc), &e) }); pi != nil || err != nil {
				return
			}
			invalid := false
			core.Safe(func() { invalid = expr.Validate(&e) != nil })
			if !invalid {
				return
			}
			ops := map[string]func(){
				"String": func() { _ = e.String() }, "GoString": func() { _ = e.GoString() }, "Marshal": func() { _, _ = json.Marshal(&e) },
				"Render": func() { _, _ = d.Render(&e) }, "RenderParam": func() { _, _, _ = d.RenderParam(&e) },
			}
			for _, name := range []string{"String", "GoString", "Marshal", "Render", "RenderParam"} {
				if pi := core.Safe(ops[name]); pi != nil {
					k := fmt.Sprint(e.Op) + "|" + name + "|" + core.AbstractMsg(pi.Msg) + "@" + pi.Where
					if !seen[k] {
						seen[k] = true
						dangerousCores = append(dangerousCores, doc)
					}
					return
				}
			}
		})
	})
	return dangerousCores
}

func init() {
	core.Register(&core.Check{
		ID:          "C13",
		OwnsCrashes: true,
		Title:       "Decoding untrusted JSON is safe, and validation guards rendering",
		Units: func(tier string) []core.Unit {
			l := 4
			if tier == "thorough" {
				l = 5
			}
			var us []core.Unit
			for _, u := range enum.SeqUnits("jbytes", "json", len(jsonByteAlphabet), l, 2) {
				us = append(us, core.Unit{Name: u})
			}
			for i := range jsonOps {
				us = append(us, core.Unit{Name: fmt.Sprintf("doc1|%d", i), Weight: 2})
			}
			us = append(us, core.Unit{Name: "doc1x", Weight: 1})
			all, ok := c13Reps()
			n := len(ok)
			if tier == "thorough" {
				n = len(all)
			}
			for i := range jsonOps {
				for lo := 0; lo < n; lo += 16 {
					us = append(us, core.Unit{Name: fmt.Sprintf("doc2|%s|%d|%d", tier, i, lo), Weight: 3})
				}
			}
			for i := range c13Wrappers {
				us = append(us, core.Unit{Name: fmt.Sprintf("deep|%d", i), Weight: 0})
			}
			for i := range jsonOps {
				us = append(us, core.Unit{Name: fmt.Sprintf("under2|%d", i), Weight: 1})
			}
			return us
		},
		Run: func(w *core.Worker, tier, unit string) {
			do := func(doc string) { w.Do(core.Case{Kind: "doc", In: core.BStr(doc)}) }
			p := strings.Split(unit, "|")
			switch p[0] {
			case "under2":
				// every dangerous document as left / right child of every operator, that as left / right
				// child of operator i: no (operator, position) pair may be a place Validate does not look at
				var i int
				fmt.Sscanf(p[1], "%d", &i)
				for _, c := range c13DangerousCores() {
					for _, inner := range jsonOps {
						for _, mid := range []string{mkDoc(`"a"`, inner, c, ""), mkDoc(c, inner, `"b"`, ""), mkDoc(c, inner, "\x00missing", ""), mkDoc("\x00missing", inner, c, "")} {
							do(mkDoc(mid, jsonOps[i], `"b"`, ""))
							do(mkDoc(`"a"`, jsonOps[i], mid, ""))
							do(mkDoc("\x00missing", jsonOps[i], mid, ""))
							do(mkDoc(mid, jsonOps[i], "\x00missing", ""))
						}
					}
				}
			case "deep":
				// every document that fails Validate and would make a printer or renderer panic if it
				// were rendered anyway, buried under n levels of one wrapper: Validate must still see it
				var i int
				fmt.Sscanf(p[1], "%d", &i)
				cores := c13DangerousCores()
				w.Count("deep_dangerous_cores", int64(len(cores)))
				for _, c := range cores {
					for _, n := range c13Depths {
						do(nestDoc(c, c13Wrappers[i], n))
					}
				}
			case "jbytes":
				enum.EnumSeqUnit(unit, len(jsonByteAlphabet), func(seq []int) { do(enum.Join(jsonByteAlphabet, seq, "")) })
			case "doc1":
				var i int
				fmt.Sscanf(p[1], "%d", &i)
				lefts := append([]string{"\x00missing"}, jsonValues...)
				rights := append(append([]string{"\x00missing"}, jsonValues...), jsonBoundaries()...)
				for _, l := range lefts {
					for _, r := range rights {
						do(mkDoc(l, jsonOps[i], r, ""))
					}
				}
			case "doc1x":
				for _, op := range jsonOps {
					for _, l := range []string{`"a"`, `1`, "\x00missing"} {
						for _, r := range []string{"\x00missing", `"b"`, `{"min":1,"max":2}`} {
							for _, x := range jsonExtras[1:] {
								do(mkDoc(l, op, r, x))
							}
						}
					}
				}
			case "doc2":
				var i, lo int
				fmt.Sscanf(p[2], "%d", &i)
				fmt.Sscanf(p[3], "%d", &lo)
				all, ok := c13Reps()
				reps := ok
				if p[1] == "thorough" {
					reps = all
				}
				kids := append(append([]string{"\x00missing"}, jsonValues...), repsCoarse...)
				// arrays of documents in operand position (array elements must be plain values)
				for _, r := range repsCoarse {
					kids = append(kids, "["+r+"]", "[1,"+r+"]")
				}
				kids = append(kids, "[null]", "[1,null]")
				if (jsonOps[i] == "AND" || jsonOps[i] == "OR") && p[1] == "thorough" {
					kids = append(kids, ok...)
				}
				for li := lo; li < lo+16 && li < len(reps); li++ {
					for _, r := range kids {
						do(mkDoc(reps[li], jsonOps[i], r, ""))
						do(mkDoc(r, jsonOps[i], reps[li], ""))
					}
					if jsonOps[i] == "FUZZY" || jsonOps[i] == "BOOST" {
						for _, x := range jsonExtras[1:] {
							do(mkDoc(reps[li], jsonOps[i], "\x00missing", x))
						}
					}
				}
			}
		},
		Eval:   c13Eval,
		Shrink: c13Shrink,
		Rule: "BYTES over a JSON alphabet (punctuation, letters, digits and the schema's key words as single symbols) to length L; JSON(1): every document {left,operator,right,+extras} over 29 leaf values (27 + absent, both sides) x 22 operator names x (values ∪ 507 boundary objects); " +
			"UNDER2: each such document as left / right child of every operator below every operator; DEEP: every depth-1 document that fails Validate and would make an operation panic, buried under 1..1025 levels of seven wrappers (unary, binary left/right, list element, range bound, array); JSON(2): one child is every representative of a decoded shape signature (operator, dynamic types, string classes, render outcome; recomputed from the implementation on every run), the other every plain value and every coarse-signature representative; non-trivial = decodes and validates; distinct = distinct shape signatures of validated documents",
		Assumptions: []string{"depth-2 children are abstracted to shape signatures (operator, dynamic types, string classes the code branches on); depth 1 is exhaustive without abstraction"},
		Bounds: func(tier string) map[string]any {
			all, ok := c13Reps()
			if tier == "thorough" {
				return map[string]any{"L_bytes": 5, "json_depth": 2, "child_representatives": len(all)}
			}
			return map[string]any{"L_bytes": 4, "json_depth": 2, "child_representatives": len(ok), "note": "depth-2 children: validated representatives only"}
		},
		Deadline: func(tier string) int {
			if tier == "thorough" {
				return 1000
			}
			return 300
		},
	})
}

func c13Eval(c core.Case) (res core.Result) {
	doc := []byte(c.In)
	add := func(clause, class, obs, exp string) {
		res.Obs = append(res.Obs, core.Obs{Clause: clause, Class: class, Observed: obs, Expected: exp})
	}
	var e expr.Expression
	var err error
	if pi := core.Safe(func() { err = json.Unmarshal(doc, &e) }); pi != nil {
		add("decode", "panic:"+core.AbstractMsg(pi.Msg)+"@"+pi.Where, pi.String(), "a value or an error")
		return
	}
	if err != nil {
		return
	}
	var verr error
	if pi := core.Safe(func() { verr = expr.Validate(&e) }); pi != nil {
		add("guard", "Validate panic:"+core.AbstractMsg(pi.Msg)+"@"+pi.Where, pi.String(), "Validate returns")
		return
	}
	if verr != nil {
		res.Tags = append(res.Tags, "decoded_but_invalid")
		return
	}
	res.Nontrivial = true
	res.Hash = core.Hash64(shapeSig(string(c.In)))
	d := driver.NewPostgresDriver()
	ops := []struct {
		name string
		f    func()
	}{
		{"String", func() { _ = e.String() }},
		{"GoString", func() { _ = e.GoString() }},
		{"Marshal", func() { _, _ = json.Marshal(&e) }},
		{"Render", func() { _, _ = d.Render(&e) }},
		{"RenderParam", func() { _, _, _ = d.RenderParam(&e) }},
	}
	for _, op := range ops {
		if pi := core.Safe(op.f); pi != nil {
			add("guard", op.name+" panic:"+core.AbstractMsg(pi.Msg)+"@"+pi.Where, pi.String(), op.name+" returns normally on a validated expression")
		}
	}
	return
}

func jsonDepth(x any) int {
	m, ok := x.(map[string]any)
	if !ok {
		return 0
	}
	d := 0
	for _, k := range []string{"left", "right"} {
		if n := jsonDepth(m[k]); n > d {
			d = n
		}
	}
	return d + 1
}

// c13Shrink: structural shrinking of JSON documents (drop a member, replace a member by a simpler
// value, hoist a child) and byte deletion for non-JSON inputs.
func c13Shrink(c core.Case) []core.Case {
	var out []core.Case
	var v any
	if err := json.Unmarshal([]byte(c.In), &v); err != nil {
		return shrinkBytes(c)
	}
	emit := func(x any) {
		b, err := json.Marshal(x)
		if err == nil && string(b) != string(c.In) {
			out = append(out, core.Case{Kind: c.Kind, In: core.BStr(b)})
		}
	}
	// deep documents first lose half of their depth at a time: the descendants at depth n/2, n/4, ...
	// along the deepest path become the whole document
	var path []any
	for x := v; ; {
		m, ok := x.(map[string]any)
		if !ok {
			break
		}
		path = append(path, x)
		var next any
		best := -1
		for _, k := range []string{"left", "right"} {
			if c, ok := m[k].(map[string]any); ok {
				if d := jsonDepth(c); d > best {
					best, next = d, c
				}
			}
		}
		if next == nil {
			break
		}
		x = next
	}
	for d := len(path) / 2; d >= 1; d /= 2 {
		emit(path[d])
	}
	if len(c.In) > 4096 {
		// one level at a time and nothing finer until the document is small
		if len(path) > 1 {
			emit(path[1])
		}
		return out
	}
	var rec func(x any, put func(any))
	rec = func(x any, put func(any)) {
		switch t := x.(type) {
		case map[string]any:
			keys := []string{}
			for k := range t {
				keys = append(keys, k)
			}
			sort.Strings(keys)
			for _, k := range keys {
				// hoist child
				put(t[k])
				emit(v)
				put(t)
				// drop member
				old := t[k]
				delete(t, k)
				emit(v)
				t[k] = old
				// simplify member
				// directed simplification (well-founded: containers -> scalars -> "a" / 1)
				switch o := old.(type) {
				case map[string]any, []any:
					t[k] = "a"
					emit(v)
					t[k] = 1.0
					emit(v)
				case string:
					if o != "a" {
						t[k] = "a"
						emit(v)
					}
				case float64:
					if o != 1 {
						t[k] = 1.0
						emit(v)
					}
				default:
					t[k] = "a"
					emit(v)
				}
				t[k] = old
				rec(old, func(n any) { t[k] = n })
				t[k] = old
			}
		case []any:
			for i := range t {
				old := t[i]
				rec(old, func(n any) { t[i] = n })
				t[i] = old
			}
			if len(t) > 0 {
				put(t[:len(t)-1])
				emit(v)
				put(t)
			}
		}
	}
	rec(v, func(n any) { v = n })
	return out
}
