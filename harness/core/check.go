package core

import (
	"encoding/json"
	"os"
	"sort"
	"strconv"
	"sync/atomic"
	"time"
)

// Unit is one independently executable piece of a check's enumeration (a subtree of the prefix
// tree, one scenario, ...). Units partition the space; workers run whole units.
type Unit struct {
	Name   string `json:"name"`
	Weight int    `json:"weight,omitempty"` // rough relative cost; heavier units are started first
}

// Check is what each property file registers.
type Check struct {
	ID    string
	Title string
	// Instr: the check must run in the binary built with the instrumentation overlay.
	Instr bool
	// Units lists the work units of a tier ("quick" or "thorough").
	Units func(tier string) []Unit
	// Run enumerates one unit and hands every case to w.Do (or reports through w directly).
	Run func(w *Worker, tier string, unit string)
	// Eval is the oracle for one case; it must be a deterministic function of the case and of
	// the library under test.
	Eval func(c Case) Result
	// Shrink proposes strictly smaller cases (may be nil).
	Shrink func(c Case) []Case
	// Evidence text.
	Rule        string
	Assumptions []string
	// Bounds describes the tier's bounds for the evidence file.
	Bounds func(tier string) map[string]any
	// Deadline per tier in seconds: the coordinator stops handing out units after it; the run
	// then ends with exhaustive:false (never with a violation).
	Deadline func(tier string) int
	// OwnsCrashes: the property forbids the library to bring the process down (a fatal runtime
	// error cannot be recovered by Safe). When a worker dies, the coordinator re-runs the unit with a
	// case journal, and the last journalled case is reported as a violation of clause "fatal".
	OwnsCrashes bool
}

var registry = map[string]*Check{}

// ExtraCommands: further sub-commands of the harness binary registered by checks.
var ExtraCommands = map[string]func(args []string) int{}

func Register(c *Check) { registry[c.ID] = c }

func Lookup(id string) *Check { return registry[id] }

func IDs() []string {
	ids := []string{}
	for k := range registry {
		ids = append(ids, k)
	}
	sort.Strings(ids)
	return ids
}

// Worker accumulates what one unit covered.
type Worker struct {
	Check *Check
	Tier  string

	Evaluations int64
	States      int64
	Transitions int64
	Nontrivial  int64
	hashes      map[uint64]struct{}
	hashCap     int
	HashCapped  bool
	Counters    map[string]int64
	Samples     []Case
	sampleEvery int64
	viol        map[string]*Violation
	minCache    map[string]minEntry
	Notes       []string
	Inexhaust   string // non-empty: the unit hit a cap; text says which
	Unit        string
}

type minEntry struct {
	min    Case
	minObs string
	minExp string
	steps  int
}

func NewWorker(c *Check, tier string) *Worker {
	return &Worker{
		Check:       c,
		Tier:        tier,
		hashes:      map[uint64]struct{}{},
		hashCap:     400000,
		Counters:    map[string]int64{},
		sampleEvery: 1,
		viol:        map[string]*Violation{},
		minCache:    map[string]minEntry{},
	}
}

// watchdog state: start time (unix nanos) of the library call in flight, 0 if none.
var callStart atomic.Int64
var currentCase atomic.Pointer[Case]

// Do evaluates one case: one state of the exploration (the case) reached by one transition.
// journal: when VERIF_JOURNAL names a file, every case is appended to it (unbuffered) before it is
// evaluated, so that the case in flight survives the death of the process.
var journal *os.File

func init() {
	if p := os.Getenv("VERIF_JOURNAL"); p != "" {
		journal, _ = os.OpenFile(p, os.O_CREATE|os.O_WRONLY|os.O_APPEND, 0o644)
	}
}

func journalCase(c *Case) {
	if journal != nil {
		b, _ := json.Marshal(c)
		journal.Write(append(b, '\n'))
	}
}

// hardStop (unix seconds, from VERIF_HARD_STOP): the coordinator's deadline plus a grace period. The
// deadline only stops handing out units; a unit in flight on a tree that makes every call slow
// could run for a very long time. Past the hard stop the remaining cases of the unit are skipped and
// the unit reports itself as not exhaustive (never as a violation).
var hardStop int64

func init() {
	if v := os.Getenv("VERIF_HARD_STOP"); v != "" {
		hardStop, _ = strconv.ParseInt(v, 10, 64)
	}
}

func (w *Worker) pastHardStop() bool {
	if hardStop != 0 && time.Now().Unix() > hardStop {
		if w.Inexhaust == "" {
			w.Inexhaust = "hard deadline reached: the remaining cases of this unit were skipped"
		}
		return true
	}
	return false
}

func (w *Worker) Do(c Case) Result {
	if w.pastHardStop() {
		return Result{}
	}
	w.Evaluations++
	w.States++
	w.Transitions++
	cc := c
	journalCase(&cc)
	currentCase.Store(&cc)
	if !w.Check.Instr {
		// instrumented checks guard every library call with a statement budget instead; one of
		// their cases may legitimately run many long calls
		callStart.Store(time.Now().UnixNano())
	}
	r := w.Check.Eval(c)
	callStart.Store(0)
	w.Account(c, r)
	return r
}

// Account records a result that was computed by the caller.
func (w *Worker) Account(c Case, r Result) {
	w.States += r.Extra
	w.Transitions += r.Extra
	if r.Nontrivial {
		w.Nontrivial++
		if r.Hash != 0 {
			if _, ok := w.hashes[r.Hash]; !ok {
				if len(w.hashes) < w.hashCap {
					w.hashes[r.Hash] = struct{}{}
				} else {
					w.HashCapped = true
				}
			}
		}
		// keep a thin, deterministic sample of non-trivial cases
		if w.Nontrivial%w.sampleEvery == 0 && len(w.Samples) < 6 {
			w.Samples = append(w.Samples, c)
			w.sampleEvery *= 7
		}
	}
	for _, t := range r.Tags {
		w.Counters[t]++
	}
	for _, o := range r.Obs {
		w.violation(c, o)
	}
}

func (w *Worker) Count(name string, n int64) { w.Counters[name] += n }

// Record stores a violation the unit observed itself (an explorer that already holds the failing
// execution in its hands); the case is not evaluated again, because a violation that depends on
// what the process did before would not show a second time. The coordinator still confirms it
// (alone, or by re-running the unit in fresh processes).
func (w *Worker) Record(c Case, o Obs) {
	w.Evaluations++
	w.States++
	w.Transitions++
	w.violation(c, o)
}

// Flooded: the unit has already seen so many violating cases that enumerating the rest of it
// would only repeat them (each may cost a full statement budget). Enumerators may stop; the unit
// is then reported as not exhaustive — the violations found so far are reported as usual.
func (w *Worker) Flooded() bool {
	if w.pastHardStop() {
		return true
	}
	if w.Counters["violating_cases"] > 3000 {
		if w.Inexhaust == "" {
			w.Inexhaust = "stopped after 3000 violating cases in this unit"
		}
		return true
	}
	return false
}

// Tick accounts for n cases that the unit's own fast path evaluated and found to hold (the
// same oracle as Eval, without building a Case); violating cases always go through Do.
func (w *Worker) Tick(n int64) {
	w.Evaluations += n
	w.States += n
	w.Transitions += n
}

// Seen accounts for a non-trivial outcome found on the fast path.
func (w *Worker) Seen(hash uint64, sample func() Case) {
	w.Nontrivial++
	if hash != 0 {
		if _, ok := w.hashes[hash]; !ok {
			if len(w.hashes) < w.hashCap {
				w.hashes[hash] = struct{}{}
			} else {
				w.HashCapped = true
			}
		}
	}
	if w.Nontrivial%w.sampleEvery == 0 && len(w.Samples) < 6 {
		w.Samples = append(w.Samples, sample())
		w.sampleEvery *= 7
	}
}

// Guard marks the library call in flight for the hang watchdog (fast paths call it themselves).
func Guard(c *Case) {
	journalCase(c)
	currentCase.Store(c)
	callStart.Store(time.Now().UnixNano())
}
func Unguard()      { callStart.Store(0) }

func (w *Worker) violation(c Case, o Obs) {
	w.Counters["violating_cases"]++
	min, minObs, minExp, steps := w.minimise(c, o)
	sig := Signature(o.Clause, o.Class, min)
	if v, ok := w.viol[sig]; ok {
		v.Count++
		return
	}
	w.viol[sig] = &Violation{
		Property: w.Check.ID, Obs: o, Case: c, Min: min, MinObs: minObs, MinExp: minExp, Sig: sig, Count: 1, Shrinks: steps, Unit: w.Unit,
	}
}

// minimise greedily shrinks c while some shrink candidate still violates the same clause with the
// same observation class. Deterministic: candidates are tried in the order Shrink returns them.
func (w *Worker) minimise(c Case, o Obs) (Case, string, string, int) {
	if w.Check.Shrink == nil {
		return c, o.Observed, o.Expected, 0
	}
	key := o.Clause + "\x00" + o.Class + "\x00" + c.String()
	if e, ok := w.minCache[key]; ok {
		return e.min, e.minObs, e.minExp, e.steps
	}
	cur, curObs, curExp := c, o.Observed, o.Expected
	steps := 0
	var trail []string
	for steps < 200 && !w.pastHardStop() {
		progressed := false
		for _, cand := range w.Check.Shrink(cur) {
			ck := o.Clause + "\x00" + o.Class + "\x00" + cand.String()
			if e, ok := w.minCache[ck]; ok {
				// a case we already minimised: jump to its result
				cur, curObs, curExp = e.min, e.minObs, e.minExp
				steps += e.steps + 1
				progressed = false
				goto done
			}
			r := w.Check.Eval(cand)
			hit := false
			for _, oo := range r.Obs {
				if oo.Clause == o.Clause && oo.Class == o.Class {
					hit = true
					curObs = oo.Observed
					curExp = oo.Expected
					break
				}
			}
			if hit {
				trail = append(trail, o.Clause+"\x00"+o.Class+"\x00"+cur.String())
				cur = cand
				steps++
				progressed = true
				break
			}
		}
		if !progressed {
			break
		}
	}
done:
	e := minEntry{cur, curObs, curExp, steps}
	if len(w.minCache) < 200000 {
		w.minCache[key] = e
		for _, t := range trail {
			w.minCache[t] = e
		}
	}
	return cur, curObs, curExp, steps
}

// UnitResult is what a worker process reports for one unit (one JSON line on stdout).
type UnitResult struct {
	Unit        string           `json:"unit"`
	Evaluations int64            `json:"evaluations"`
	States      int64            `json:"states"`
	Transitions int64            `json:"transitions"`
	Nontrivial  int64            `json:"nontrivial"`
	Hashes      []uint64         `json:"hashes,omitempty"`
	HashCapped  bool             `json:"hash_capped,omitempty"`
	Counters    map[string]int64 `json:"counters,omitempty"`
	Samples     []Case           `json:"samples,omitempty"`
	Violations  []*Violation     `json:"violations,omitempty"`
	Notes       []string         `json:"notes,omitempty"`
	Inexhaust   string           `json:"inexhaustive,omitempty"`
	WallS       float64          `json:"wall_s"`
	Fatal       string           `json:"fatal,omitempty"` // worker-level failure (hang, crash)
}

// Sigs lists the signatures recorded so far (history replay).
func (w *Worker) Sigs() map[string]bool {
	m := map[string]bool{}
	for s := range w.viol {
		m[s] = true
	}
	return m
}

func (w *Worker) Result(unit string, wall float64) *UnitResult {
	r := &UnitResult{
		Unit: unit, Evaluations: w.Evaluations, States: w.States, Transitions: w.Transitions,
		Nontrivial: w.Nontrivial, HashCapped: w.HashCapped, Counters: w.Counters, Samples: w.Samples,
		Notes: w.Notes, Inexhaust: w.Inexhaust, WallS: wall,
	}
	for h := range w.hashes {
		r.Hashes = append(r.Hashes, h)
	}
	sort.Slice(r.Hashes, func(i, j int) bool { return r.Hashes[i] < r.Hashes[j] })
	sigs := []string{}
	for s := range w.viol {
		sigs = append(sigs, s)
	}
	sort.Strings(sigs)
	for _, s := range sigs {
		r.Violations = append(r.Violations, w.viol[s])
	}
	return r
}
