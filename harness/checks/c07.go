package checks

import (
	"fmt"
	"regexp"
	"sort"
	"strconv"
	"strings"

	"github.com/grindlemire/go-lucene/verif/core"
	"github.com/grindlemire/go-lucene/verif/enum"
	"github.com/grindlemire/go-lucene/verif/qast"
)

// C07 — juxtaposition means AND, with AND's precedence.
//
// Case: Kind "core" | "noncore"; In = text with the AND nodes listed in Aux (preorder indices)
// written as juxtaposition; In2 = the same tree with every AND explicit; Tree = harness AST.
// Oracle: In2 must parse (else upstream, C05). core gaps (left operand ends with a term token and
// right operand begins with one — the form of all the statement's examples): In must parse and
// be DeepEqual to Parse(In2). noncore gaps (after ) ] } ~ ^, before ( NOT + -): "may be written"
// is read conditionally — if In parses it must equal Parse(In2); rejection is counted, not failed.

var numTok = regexp.MustCompile(`^-?\d+(\.\d+)?$`)

func isTermTok(t string) bool {
	switch t {
	case ":", "=", ">", "<", "(", ")", "[", "]", "{", "}", "TO", "AND", "OR", "NOT", "+", "-", "~", "^":
		return false
	}
	return t != ""
}

type andGap struct {
	idx      int // preorder index of the AND node
	node     *qast.Node
	eligible bool
	core     bool
}

func andGaps(t *qast.Node) []andGap {
	var gaps []andGap
	idx := 0
	qast.Walk(t, func(n *qast.Node) {
		my := idx
		idx++
		if n.Op != qast.OAnd {
			return
		}
		l, r := qast.OperandTokens(n, nil)
		ll, rf := l[len(l)-1], r[0]
		g := andGap{idx: my, node: n, eligible: true}
		if (ll == "~" || ll == "^") && numTok.MatchString(rf) {
			g.eligible = false // `a ^` followed by `7` spells a^7: ambiguous text, not a juxtaposition
		}
		g.core = isTermTok(ll) && isTermTok(rf)
		gaps = append(gaps, g)
	})
	return gaps
}

// juxtRight: right operands of the chain juxtapositions — every kind of term a juxtaposed operand
// may begin with.
func juxtRight() []*qast.Node {
	return append(qast.LeavesSmall(3),
		qast.Lf(qast.Leaf{Kind: qast.LTerm, Val: qast.I("-5")}),
		qast.Lf(qast.Leaf{Kind: qast.LTerm, Val: qast.Q("q r")}),
		qast.Lf(qast.Leaf{Kind: qast.LEq, Field: "g", Val: qast.I("-5")}),
		qast.Lf(qast.Leaf{Kind: qast.LTerm, Val: qast.Wi("w*")}))
}

func init() {
	core.Register(&core.Check{
		ID:    "C07",
		Title: "Juxtaposition means AND, with AND's precedence",
		Units: func(tier string) []core.Unit {
			var us []core.Unit
			add := func(names []string, w int) {
				for _, n := range names {
					us = append(us, core.Unit{Name: n, Weight: w})
				}
			}
			add(qast.TreeUnits("tree|full|2|juxt", len(treeSet("full1")), 40), 3)
			// unary chains of length <= 3 (4) as the left operand of a juxtaposition, in four contexts:
			// this is where the number of pending reductions before the injected AND is largest
			for i := range qast.LeavesSmall(4) {
				for j := range juxtRight() {
					k := 3
					if tier == "thorough" {
						k = 4
					}
					us = append(us, core.Unit{Name: fmt.Sprintf("chainjuxt|%d|%d|%d", k, i, j), Weight: 2})
				}
			}
			// token-level differential: every token sequence over a small alphabet, with AND written
			// into every core gap, against the sequence itself (reaches juxtapositions nested inside
			// groups, several pending implicit ANDs, ...)
			for _, u := range enum.SeqUnits("tok", "juxt", len(enum.Alphabets["juxt"]), 7, 2) {
				us = append(us, core.Unit{Name: u, Weight: 2})
			}
			if tier == "thorough" {
				add(qast.TreeUnits("tree|two|3|juxt", len(treeSet("two2")), 64), 4)
				// (TREE(L_3,3) with all juxtaposition subsets does not fit the time budget: 2.9e7 trees x subsets)
				add([]string{"spine|6"}, 4)
			} else {
				add([]string{"spine|5"}, 2)
			}
			return us
		},
		Run:    c07Run,
		Eval:   c07Eval,
		Shrink: c07Shrink,
		Rule: "TREE(L_full,2) (thorough: + TREE(L_2,3)), SPINE(m) over 2 leaves and every unary chain of length <= 3/4 as left operand of a juxtaposition in five contexts; for every tree every non-empty subset of its eligible AND nodes written as juxtaposition " +
			"(all subsets up to 4 AND nodes; beyond: all singletons, all co-singletons, all pairs and the full set); non-trivial = both texts parse; distinct = distinct trees",
		Assumptions: []string{
			"a gap is core iff the left operand ends and the right operand begins with a term token; other gaps may be rejected (counted as rejected_noncore)",
			"gaps where the text would spell a different token sequence (`a ^` + number) are not juxtapositions and are excluded",
		},
		Bounds: func(tier string) map[string]any {
			if tier == "thorough" {
				return map[string]any{"tree_full_depth": 2, "tree_2leaf_depth": 3, "spine": 6}
			}
			return map[string]any{"tree_full_depth": 2, "spine": 5}
		},
		Deadline: func(tier string) int {
			if tier == "thorough" {
				return 1000
			}
			return 300
		},
	})
}

// subsets of gap positions to juxtapose
func gapSubsets(n int) [][]int {
	var out [][]int
	if n <= 4 {
		for m := 1; m < 1<<n; m++ {
			var s []int
			for i := 0; i < n; i++ {
				if m&(1<<i) != 0 {
					s = append(s, i)
				}
			}
			out = append(out, s)
		}
		return out
	}
	seen := map[string]bool{}
	put := func(s []int) {
		k := fmt.Sprint(s)
		if !seen[k] && len(s) > 0 {
			seen[k] = true
			out = append(out, s)
		}
	}
	all := make([]int, n)
	for i := range all {
		all[i] = i
	}
	put(all)
	for i := 0; i < n; i++ {
		put([]int{i})
		var co []int
		for j := 0; j < n; j++ {
			if j != i {
				co = append(co, j)
			}
		}
		put(co)
		for j := i + 1; j < n; j++ {
			put([]int{i, j})
		}
	}
	return out
}

func c07Case(t *qast.Node, gaps []andGap, sel []int, enc string) core.Case {
	juxt := map[*qast.Node]bool{}
	kind := "core"
	var ids []string
	for _, k := range sel {
		juxt[gaps[k].node] = true
		if !gaps[k].core {
			kind = "noncore"
		}
		ids = append(ids, strconv.Itoa(gaps[k].idx))
	}
	return core.Case{Kind: kind, In: core.BStr(qast.Text(t, &qast.PrintOpts{Juxt: juxt})),
		In2: core.BStr(qast.Text(t, nil)), Aux: core.BStr(strings.Join(ids, ",")), Tree: enc}
}

func c07Run(w *core.Worker, tier, unit string) {
	do := func(t *qast.Node) {
		all := andGaps(t)
		var gaps []andGap
		for _, g := range all {
			if g.eligible {
				gaps = append(gaps, g)
			} else {
				w.Count("ineligible_gaps", 1)
			}
		}
		if len(gaps) == 0 {
			return
		}
		enc := qast.Encode(t)
		subs := gapSubsets(len(gaps))
		if len(gaps) > 4 {
			w.Count("trees_with_capped_subsets", 1)
		}
		for _, sel := range subs {
			w.Do(c07Case(t, gaps, sel, enc))
		}
	}
	switch {
	case strings.HasPrefix(unit, "tok|"):
		alpha := enum.UnitAlphabet(unit)
		enum.EnumSeqUnit(unit, len(alpha), func(seq []int) {
			var toks, expl []string
			gaps := 0
			for i, s := range seq {
				t := alpha[s]
				if i > 0 && isTermTok(toks[i-1]) && isTermTok(t) {
					expl = append(expl, "AND")
					gaps++
				}
				toks = append(toks, t)
				expl = append(expl, t)
			}
			if gaps == 0 {
				return
			}
			w.Do(core.Case{Kind: "core", In: core.BStr(strings.Join(toks, " ")), In2: core.BStr(strings.Join(expl, " ")), Aux: "tok"})
		})
	case strings.HasPrefix(unit, "tree|"):
		leaves, sub := treeUnitSets(unit)
		_, eu := stripTreeUnit(unit)
		qast.EnumTreeUnit(eu, leaves, sub, do)
	case strings.HasPrefix(unit, "spine|"):
		m, _ := strconv.Atoi(strings.Split(unit, "|")[1])
		for i := 2; i <= m; i++ {
			qast.Spines(qast.LeavesSmall(2), i, do)
		}
	case strings.HasPrefix(unit, "chainjuxt|"):
		p := strings.Split(unit, "|")
		k, _ := strconv.Atoi(p[1])
		i, _ := strconv.Atoi(p[2])
		j, _ := strconv.Atoi(p[3])
		a, b := qast.LeavesSmall(4)[i], juxtRight()[j]
		x := qast.Lf(qast.Leaf{Kind: qast.LEq, Field: "x", Val: qast.W("y")})
		qast.Chains(a, k, func(c *qast.Node) {
			do(qast.Bin(qast.OAnd, c, b))
			do(qast.Bin(qast.OAnd, qast.Bin(qast.OAnd, x, c), b))
			do(qast.Bin(qast.OOr, x, qast.Bin(qast.OAnd, c, b)))
			do(qast.Bin(qast.OAnd, qast.Bin(qast.OAnd, c, b), x))
			do(qast.Bin(qast.OAnd, c, qast.Bin(qast.OAnd, b, x)))
		})
	}
}

func c07Eval(c core.Case) (res core.Result) {
	ex := doParse(string(c.In2), c.DF)
	if ex.pi != nil {
		res.Tags = append(res.Tags, "skipped_upstream_panic")
		return
	}
	if ex.err != nil || ex.e == nil {
		res.Tags = append(res.Tags, "skipped_upstream_explicit_rejected")
		return
	}
	jx := doParse(string(c.In), c.DF)
	if jx.pi != nil {
		res.Tags = append(res.Tags, "skipped_upstream_panic")
		return
	}
	if jx.err != nil || jx.e == nil {
		if c.Kind == "core" {
			res.Obs = append(res.Obs, core.Obs{Clause: "core", Class: "rejected",
				Observed: fmt.Sprintf("juxtaposed text fails: %v", jx.err), Expected: "parses like the explicit-AND text: " + gostr(ex.e)})
		} else {
			res.Tags = append(res.Tags, "rejected_noncore")
		}
		return
	}
	res.Nontrivial = true
	res.Hash = treeHash(jx.e)
	if !deepEqual(jx.e, ex.e) {
		res.Obs = append(res.Obs, core.Obs{Clause: c.Kind, Class: "different-tree", Observed: gostr(jx.e), Expected: gostr(ex.e)})
	}
	return
}

func c07Shrink(c core.Case) []core.Case {
	if string(c.Aux) == "tok" {
		// token-level case: shrink the juxtaposed text, rebuild the explicit one
		var out []core.Case
		for _, d := range shrinkTokens(core.Case{Kind: c.Kind, In: c.In}) {
			toks := splitTokens(string(d.In))
			var expl []string
			gaps := 0
			for i, t := range toks {
				if i > 0 && isTermTok(toks[i-1]) && isTermTok(t) {
					expl = append(expl, "AND")
					gaps++
				}
				expl = append(expl, t)
			}
			if gaps == 0 {
				continue
			}
			out = append(out, core.Case{Kind: c.Kind, In: d.In, In2: core.BStr(strings.Join(expl, " ")), Aux: "tok"})
		}
		return out
	}
	t, err := qast.Decode(c.Tree)
	if err != nil {
		return nil
	}
	var out []core.Case
	emitFor := func(s *qast.Node) {
		var gaps []andGap
		for _, g := range andGaps(s) {
			if g.eligible {
				gaps = append(gaps, g)
			}
		}
		if len(gaps) == 0 {
			return
		}
		enc := qast.Encode(s)
		for i := range gaps {
			d := c07Case(s, gaps, []int{i}, enc)
			d.DF = c.DF
			out = append(out, d)
		}
		if len(gaps) > 1 {
			all := make([]int, len(gaps))
			for i := range all {
				all[i] = i
			}
			d := c07Case(s, gaps, all, enc)
			d.DF = c.DF
			out = append(out, d)
		}
	}
	// fewer juxtaposed gaps on the same tree first
	cur := strings.Split(string(c.Aux), ",")
	if len(cur) > 1 {
		var gaps []andGap
		for _, g := range andGaps(t) {
			if g.eligible {
				gaps = append(gaps, g)
			}
		}
		pos := map[string]int{}
		for i, g := range gaps {
			pos[strconv.Itoa(g.idx)] = i
		}
		for drop := range cur {
			var sel []int
			for i, id := range cur {
				if i != drop {
					if p, ok := pos[id]; ok {
						sel = append(sel, p)
					}
				}
			}
			sort.Ints(sel)
			if len(sel) > 0 {
				d := c07Case(t, gaps, sel, c.Tree)
				d.DF = c.DF
				out = append(out, d)
			}
		}
	}
	for _, s := range shrinkTrees(t) {
		emitFor(s)
	}
	return out
}
