package core

import (
	"bufio"
	"bytes"
	"crypto/sha1"
	"encoding/json"
	"fmt"
	"os"
	"os/exec"
	"path/filepath"
	"runtime"
	"sort"
	"strconv"
	"strings"
	"sync"
	"time"
)

// single-call watchdog: a library call normally takes microseconds; if one is still running after
// this long the worker reports a suspected hang for the case in flight. It is not a timing
// oracle: nothing is ever declared a violation because of it outside C01's counting build.
const hangSeconds = 90

// WorkerMain is the body of a worker process: unit names on stdin, one UnitResult per line on
// stdout.
func WorkerMain(id, tier string) int {
	chk := Lookup(id)
	if chk == nil {
		fmt.Fprintf(os.Stderr, "unknown check %s\n", id)
		return 2
	}
	out := bufio.NewWriter(os.Stdout)
	enc := json.NewEncoder(out)
	var mu sync.Mutex
	var curUnit string
	go func() {
		for {
			time.Sleep(2 * time.Second)
			st := callStart.Load()
			if st != 0 && time.Since(time.Unix(0, st)) > hangSeconds*time.Second {
				mu.Lock()
				c := currentCase.Load()
				cs := ""
				if c != nil {
					cs = c.String()
				}
				enc.Encode(&UnitResult{Unit: curUnit, Fatal: "hang-suspect: a single library call ran > " +
					strconv.Itoa(hangSeconds) + "s on case " + cs})
				out.Flush()
				os.Exit(3)
			}
		}
	}()
	sc := bufio.NewScanner(os.Stdin)
	sc.Buffer(make([]byte, 1<<20), 1<<20)
	for sc.Scan() {
		unit := strings.TrimSpace(sc.Text())
		if unit == "" {
			continue
		}
		mu.Lock()
		curUnit = unit
		mu.Unlock()
		w := NewWorker(chk, tier)
		w.Unit = unit
		t0 := time.Now()
		chk.Run(w, tier, unit)
		res := w.Result(unit, time.Since(t0).Seconds())
		mu.Lock()
		if err := enc.Encode(res); err != nil {
			fmt.Fprintf(os.Stderr, "encode: %v\n", err)
			return 2
		}
		out.Flush()
		mu.Unlock()
		runtime.GC()
	}
	return 0
}

// ReplayMain evaluates one case given as JSON (file or "-" for stdin) without the explorer and
// prints the observations. Exit 1 if the case violates.
func ReplayMain(path string) int {
	var data []byte
	var err error
	if path == "-" {
		data, err = readAll(os.Stdin)
	} else {
		data, err = os.ReadFile(path)
	}
	if err != nil {
		fmt.Fprintln(os.Stderr, err)
		return 2
	}
	var rp ReplayFile
	if err := json.Unmarshal(data, &rp); err != nil {
		fmt.Fprintln(os.Stderr, err)
		return 2
	}
	chk := Lookup(rp.Property)
	if chk == nil {
		fmt.Fprintf(os.Stderr, "unknown check %s (is this the right binary?)\n", rp.Property)
		return 2
	}
	if rp.History && rp.Unit != "" {
		w := NewWorker(chk, rp.Tier)
		w.Unit = rp.Unit
		chk.Run(w, rp.Tier, rp.Unit)
		if w.Sigs()[rp.Sig] {
			fmt.Printf("REPLAY-VIOLATES property=%s (history-dependent: unit %s run from a fresh process reaches signature %s)\n", rp.Property, rp.Unit, rp.Sig)
			return 1
		}
		fmt.Printf("REPLAY-HOLDS property=%s (unit %s run from a fresh process does not reach the signature)\n", rp.Property, rp.Unit)
		return 0
	}
	r := chk.Eval(rp.Case)
	hit := false
	for _, o := range r.Obs {
		fmt.Printf("OBS property=%s clause=%s class=%q observed=%q expected=%q\n", rp.Property, o.Clause, o.Class, o.Observed, o.Expected)
		if rp.Clause == "" || (o.Clause == rp.Clause && o.Class == rp.Class) {
			hit = true
		}
	}
	if hit {
		fmt.Printf("REPLAY-VIOLATES property=%s case=%s\n", rp.Property, rp.Case)
		return 1
	}
	fmt.Printf("REPLAY-HOLDS property=%s case=%s\n", rp.Property, rp.Case)
	return 0
}

func readAll(f *os.File) ([]byte, error) {
	var buf bytes.Buffer
	_, err := buf.ReadFrom(f)
	return buf.Bytes(), err
}

// ReplayFile is the replayable artefact written for every reported violation.
type ReplayFile struct {
	Property string `json:"property"`
	Clause   string `json:"clause"`
	Class    string `json:"class"`
	Case     Case   `json:"case"` // the minimised case
	Original Case   `json:"original"`
	Observed string `json:"observed"`
	Expected string `json:"expected,omitempty"`
	Sig      string `json:"signature"`
	Count    int64  `json:"attributed_cases"`
	Instr    bool   `json:"needs_instrumented_build,omitempty"`
	How      string `json:"how_to_replay"`
	// History: the violation depends on what the process did before the case (hidden state in
	// the library). It does not reproduce when the case is evaluated alone in a fresh process;
	// the replay then re-runs the enumeration unit that reached it and looks for the signature.
	History bool   `json:"depends_on_process_history,omitempty"`
	Unit    string `json:"unit,omitempty"`
	Tier    string `json:"tier,omitempty"`
}

type unitRow struct {
	Unit        string  `json:"unit"`
	Evaluations int64   `json:"evaluations"`
	Nontrivial  int64   `json:"nontrivial"`
	WallS       float64 `json:"wall_s"`
	Inexhaust   string  `json:"inexhaustive,omitempty"`
}

// RunCheck is the coordinator: shards the tier's units over worker processes, merges, matches
// violations against the ledger, confirms new ones in fresh processes, writes evidence and replay
// files, prints the verdict lines. Returns the process exit code.
func RunCheck(id, tier string) int {
	t0 := time.Now()
	chk := Lookup(id)
	if chk == nil {
		fmt.Fprintf(os.Stderr, "unknown check %s\n", id)
		return 2
	}
	seed := 0
	if s := os.Getenv("VERIF_SEED"); s != "" {
		if v, err := strconv.Atoi(s); err == nil {
			seed = v
		}
	}
	ledger, err := LoadLedger()
	if err != nil {
		fmt.Fprintf(os.Stderr, "ledger: %v\n", err)
		return 2
	}
	exe, _ := os.Executable()
	units := chk.Units(tier)
	// heavier first; the seed only rotates the hand-out order, it cannot change what is covered
	sort.SliceStable(units, func(i, j int) bool { return units[i].Weight > units[j].Weight })
	if seed != 0 && len(units) > 1 {
		k := seed % len(units)
		if k < 0 {
			k += len(units)
		}
		units = append(units[k:], units[:k]...)
		sort.SliceStable(units, func(i, j int) bool { return units[i].Weight > units[j].Weight })
	}
	nw := runtime.NumCPU()
	if v := os.Getenv("VERIF_WORKERS"); v != "" {
		if n, err := strconv.Atoi(v); err == nil && n > 0 {
			nw = n
		}
	}
	if nw > len(units) {
		nw = len(units)
	}
	deadline := 0
	if chk.Deadline != nil {
		deadline = chk.Deadline(tier)
	}
	if v := os.Getenv("VERIF_DEADLINE_S"); v != "" {
		if n, err := strconv.Atoi(v); err == nil {
			deadline = n
		}
	}

	if deadline > 0 {
		hardStopAt = t0.Unix() + int64(deadline) + 120
	}
	work := make(chan Unit)
	results := make(chan *UnitResult, 64)
	var wg sync.WaitGroup
	for i := 0; i < nw; i++ {
		wg.Add(1)
		go func(wi int) {
			defer wg.Done()
			runWorkerProc(exe, id, tier, work, results)
		}(i)
	}
	skipped := 0
	go func() {
		for _, u := range units {
			if deadline > 0 && time.Since(t0) > time.Duration(deadline)*time.Second {
				skipped++
				continue
			}
			work <- u
		}
		close(work)
		wg.Wait()
		close(results)
	}()

	// merge
	var tot UnitResult
	tot.Counters = map[string]int64{}
	hashes := map[uint64]struct{}{}
	viol := map[string]*Violation{}
	var rows []unitRow
	var fatals []string
	var crashed []string
	var inex []string
	for r := range results {
		if r.Fatal != "" {
			fatals = append(fatals, r.Unit+": "+r.Fatal)
			if strings.HasPrefix(r.Fatal, "worker died") && r.Unit != "" {
				crashed = append(crashed, r.Unit)
			}
			continue
		}
		tot.Evaluations += r.Evaluations
		tot.States += r.States
		tot.Transitions += r.Transitions
		tot.Nontrivial += r.Nontrivial
		tot.HashCapped = tot.HashCapped || r.HashCapped
		for k, v := range r.Counters {
			tot.Counters[k] += v
		}
		for _, h := range r.Hashes {
			if len(hashes) >= 4000000 {
				tot.HashCapped = true // distinct count is then a lower bound
				break
			}
			hashes[h] = struct{}{}
		}
		if len(tot.Samples) < 12 {
			for _, s := range r.Samples {
				if len(tot.Samples) < 12 {
					tot.Samples = append(tot.Samples, s)
				}
			}
		}
		tot.Notes = append(tot.Notes, r.Notes...)
		if r.Inexhaust != "" {
			inex = append(inex, r.Unit+": "+r.Inexhaust)
		}
		for _, v := range r.Violations {
			if old, ok := viol[v.Sig]; ok {
				old.Count += v.Count
			} else {
				viol[v.Sig] = v
			}
		}
		rows = append(rows, unitRow{r.Unit, r.Evaluations, r.Nontrivial, r.WallS, r.Inexhaust})
	}
	sort.Slice(rows, func(i, j int) bool { return rows[i].Unit < rows[j].Unit })

	// a worker that died: for a property that forbids bringing the process down, find the case
	if chk.OwnsCrashes {
		sort.Strings(crashed)
		for i, u := range crashed {
			if i >= 4 {
				break // each diagnosis re-runs a unit; the first few crashing units are enough for a verdict
			}
			if v := diagnoseCrash(exe, chk, id, tier, u); v != nil {
				if old, ok := viol[v.Sig]; ok {
					old.Count++
				} else {
					viol[v.Sig] = v
				}
			}
		}
	}

	// regression cases of repaired defects: a fixed entry suppresses nothing, its witnesses are
	// replayed (fresh process each) and any violation is reported like any other
	regress := 0
	for _, f := range ledger.Fixed(id) {
		for _, wc := range f.Witnesses {
			regress++
			rp := ReplayFile{Property: id, Case: wc, Original: wc, Sig: "regression of " + f.ID, Instr: chk.Instr}
			data, _ := json.MarshalIndent(rp, "", " ")
			cmd := exec.Command(exe, "replay", "-")
			cmd.Stdin = bytes.NewReader(data)
			outb, _ := cmd.CombinedOutput()
			if cmd.ProcessState != nil && cmd.ProcessState.ExitCode() == 1 {
				v := &Violation{Property: id, Obs: Obs{Clause: "regression", Class: f.ID, Observed: strings.TrimSpace(string(outb)),
					Expected: "repaired defect stays repaired: " + f.What}, Case: wc, Min: wc, MinObs: strings.TrimSpace(string(outb)), MinExp: "repaired defect stays repaired: " + f.What,
					Sig: "regression | " + f.ID + " | " + wc.String(), Count: 1}
				viol[v.Sig] = v
			}
		}
	}

	// classify violations
	sigs := []string{}
	for s := range viol {
		sigs = append(sigs, s)
	}
	sort.Strings(sigs)
	knownSeen := map[string]*Finding{}
	knownCases := map[string]int64{}
	var fresh []*Violation
	for _, s := range sigs {
		v := viol[s]
		if f := ledger.Known(id, s); f != nil {
			knownSeen[f.ID] = f
			knownCases[f.ID] += v.Count
			continue
		}
		fresh = append(fresh, v)
	}
	// confirm fresh violations 5x in fresh processes, write replay files
	var reported []*Violation
	var unconfirmed []string
	replayDir := filepath.Join(VerifDir(), "replays", id)
	maxReport := 40
	for i, v := range fresh {
		if i >= maxReport {
			break
		}
		rp := ReplayFile{Property: id, Clause: v.Clause, Class: v.Class, Case: v.Min, Original: v.Case,
			Observed: v.MinObs, Expected: v.MinExp, Sig: v.Sig, Count: v.Count, Instr: chk.Instr}
		if v.Clause == "regression" {
			rp.Clause, rp.Class = "", ""
		}
		h := sha1.Sum([]byte(v.Sig))
		path := filepath.Join(replayDir, fmt.Sprintf("%x.json", h[:6]))
		rp.How = fmt.Sprintf("cd /verif && ./run replay %s", path)
		data, _ := json.MarshalIndent(rp, "", " ")
		replayOnce := func(d []byte) (bool, string) {
			cmd := exec.Command(exe, "replay", "-")
			cmd.Stdin = bytes.NewReader(d)
			outb, _ := cmd.CombinedOutput()
			if v.Clause == "fatal" {
				return crashedFatally(cmd, outb), strings.TrimSpace(trunc(string(outb), 600))
			}
			return cmd.ProcessState != nil && cmd.ProcessState.ExitCode() == 1, strings.TrimSpace(string(outb))
		}
		ok := true
		first, out1 := replayOnce(data)
		if first {
			for k := 0; k < 4; k++ {
				if again, out := replayOnce(data); !again {
					ok = false
					unconfirmed = append(unconfirmed, v.Sig+" :: flaky alone :: "+trunc(out, 300))
					break
				}
			}
		} else if v.Unit != "" && v.Clause != "regression" {
			// not reproducible alone: the library may keep state between calls. Re-run the whole
			// unit in fresh processes; if the same signature appears every time it is a
			// deterministic, history-dependent violation.
			rp.History, rp.Unit, rp.Tier = true, v.Unit, tier
			rp.How = fmt.Sprintf("cd /verif && ./run replay %s   # re-runs unit %s in a fresh process", path, v.Unit)
			data, _ = json.MarshalIndent(rp, "", " ")
			for k := 0; k < 3; k++ {
				if again, out := replayOnce(data); !again {
					ok = false
					unconfirmed = append(unconfirmed, v.Sig+" :: not reproducible alone nor by unit replay :: "+trunc(out1, 200)+" / "+trunc(out, 200))
					break
				}
			}
		} else {
			ok = false
			unconfirmed = append(unconfirmed, v.Sig+" :: "+trunc(out1, 300))
		}
		if !ok {
			continue
		}
		os.MkdirAll(replayDir, 0o755)
		os.WriteFile(path, data, 0o644)
		reported = append(reported, v)
		fmt.Printf("VIOLATION property=%s replay=%s\n", id, path)
		fmt.Printf("  clause=%s class=%s\n  minimal case: %s\n  observed: %s\n  expected: %s\n  attributed cases: %d (first: %s)\n",
			v.Clause, v.Class, v.Min, trunc(v.MinObs, 300), trunc(v.MinExp, 300), v.Count, v.Case)
	}
	if len(fresh) > maxReport {
		fmt.Printf("  (+%d further distinct violation signatures not written out)\n", len(fresh)-maxReport)
	}
	kids := []string{}
	for k := range knownSeen {
		kids = append(kids, k)
	}
	sort.Strings(kids)
	for _, k := range kids {
		fmt.Printf("KNOWN-FINDING: property=%s %s: %s (cases attributed in this run: %d)\n", id, k, knownSeen[k].What, knownCases[k])
	}

	exhaustive := len(fatals) == 0 && len(inex) == 0 && skipped == 0
	if tot.States == 0 {
		tot.States = tot.Evaluations
	}
	if tot.Transitions == 0 {
		tot.Transitions = tot.Evaluations
	}
	cov := map[string]any{
		"states":                        tot.States,
		"transitions":                   tot.Transitions,
		"traces_validated_against_impl": tot.Evaluations,
		"evaluations":                   tot.Evaluations,
		"nontrivial_cases":              tot.Nontrivial,
		"distinct_nontrivial":           len(hashes),
		"distinct_capped":               tot.HashCapped,
		"rule":                          chk.Rule,
		"exhaustive":                    exhaustive,
		"units":                         len(units),
		"units_run":                     len(rows),
		"units_skipped_deadline":        skipped,
		"workers":                       nw,
		"counters":                      tot.Counters,
		"known_findings_seen":           kids,
		"fixed_regression_cases":        regress,
		"violation_signatures_new":      len(fresh),
		"violation_signatures_known":    len(sigs) - len(fresh),
		"unconfirmed":                   unconfirmed,
		"explanation": "every state is a prefix/case executed on the real library (no separate model to conform): " +
			"traces_validated_against_impl equals evaluations",
	}
	if chk.Bounds != nil {
		cov["bounds"] = chk.Bounds(tier)
	}
	if len(inex) > 0 {
		cov["caps_hit"] = inex
	}
	if len(fatals) > 0 {
		cov["worker_failures"] = fatals
	}
	if len(tot.Notes) > 0 {
		n := tot.Notes
		if len(n) > 20 {
			n = n[:20]
		}
		cov["notes"] = n
	}
	samples := []any{}
	for _, s := range tot.Samples {
		samples = append(samples, s)
	}
	if len(samples) == 0 {
		samples = append(samples, "no non-trivial case in this run")
	}
	cov["samples"] = samples
	if len(rows) <= 64 {
		cov["unit_table"] = rows
	} else {
		// largest 24 units
		sort.Slice(rows, func(i, j int) bool { return rows[i].Evaluations > rows[j].Evaluations })
		cov["unit_table_top"] = rows[:24]
	}
	// vacuity
	if tot.Evaluations > 0 && len(hashes) < 2 {
		cov["vacuity_warning"] = "fewer than 2 distinct non-trivial outcomes"
		fmt.Printf("VACUITY-WARNING property=%s fewer than 2 distinct non-trivial outcomes\n", id)
	}
	ev := map[string]any{
		"property_id": id,
		"tier":        tier,
		"seed":        seed,
		"level":       "model_checking",
		"coverage":    cov,
		"assumptions": chk.Assumptions,
		"wall_s":      time.Since(t0).Seconds(),
		"violations":  len(reported),
	}
	os.MkdirAll(filepath.Join(VerifDir(), "evidence"), 0o755)
	data, _ := json.MarshalIndent(ev, "", " ")
	if err := os.WriteFile(filepath.Join(VerifDir(), "evidence", id+".json"), data, 0o644); err != nil {
		fmt.Fprintf(os.Stderr, "evidence: %v\n", err)
	}
	for _, f := range fatals {
		fmt.Printf("WORKER-FAILURE property=%s %s\n", id, f)
	}
	fmt.Printf("SUMMARY property=%s tier=%s evaluations=%d states=%d nontrivial=%d distinct=%d new_violation_sigs=%d known_sigs=%d exhaustive=%v wall=%.1fs\n",
		id, tier, tot.Evaluations, tot.States, tot.Nontrivial, len(hashes), len(fresh), len(sigs)-len(fresh), exhaustive, time.Since(t0).Seconds())
	if len(reported) > 0 {
		return 1
	}
	return 0
}

// crashedFatally: the process ended through a Go runtime fatal error (stack overflow, concurrent
// map access, out of memory ...), which no recover can intercept.
func crashedFatally(cmd *exec.Cmd, out []byte) bool {
	if cmd.ProcessState == nil {
		return false
	}
	code := cmd.ProcessState.ExitCode()
	return code != 0 && code != 1 && (bytes.Contains(out, []byte("fatal error:")) || bytes.Contains(out, []byte("goroutine stack exceeds")))
}

func fatalClass(out []byte) string {
	for _, line := range strings.Split(string(out), "\n") {
		if strings.HasPrefix(line, "fatal error:") || strings.Contains(line, "goroutine stack exceeds") {
			return AbstractMsg(strings.TrimSpace(line))
		}
	}
	return "?"
}

// diagnoseCrash re-runs a unit whose worker died, with the case journal switched on, and turns
// the last journalled case into a violation of clause "fatal" (minimised through sub-processes,
// because every evaluation of a crashing case costs a process).
func diagnoseCrash(exe string, chk *Check, id, tier, unit string) *Violation {
	os.MkdirAll(filepath.Join(VerifDir(), ".work"), 0o755)
	jf, err := os.CreateTemp(filepath.Join(VerifDir(), ".work"), "journal-*")
	if err != nil {
		return nil
	}
	jpath := jf.Name()
	jf.Close()
	defer os.Remove(jpath)
	cmd := exec.Command(exe, "worker", id, tier)
	cmd.Env = append(os.Environ(), "GOMAXPROCS=2", "VERIF_JOURNAL="+jpath)
	cmd.Stdin = strings.NewReader(unit + "\n")
	var errb bytes.Buffer
	cmd.Stderr = &errb
	cmd.Stdout = nil
	done := make(chan struct{})
	go func() { cmd.Run(); close(done) }()
	select {
	case <-done:
	case <-time.After(15 * time.Minute):
		cmd.Process.Kill()
		<-done
		return nil
	}
	if !crashedFatally(cmd, errb.Bytes()) {
		return nil // did not crash again (or not through the runtime): stays a worker failure
	}
	data, _ := os.ReadFile(jpath)
	lines := strings.Split(strings.TrimSpace(string(data)), "\n")
	var c Case
	if len(lines) == 0 || json.Unmarshal([]byte(lines[len(lines)-1]), &c) != nil {
		return nil
	}
	class := "process-crash " + fatalClass(errb.Bytes())
	crashes := func(cand Case) (bool, string) {
		rp := ReplayFile{Property: id, Clause: "fatal", Class: class, Case: cand, Original: cand, Instr: chk.Instr}
		d, _ := json.Marshal(rp)
		rc := exec.Command(exe, "replay", "-")
		rc.Stdin = bytes.NewReader(d)
		outb, _ := rc.CombinedOutput()
		return crashedFatally(rc, outb) && "process-crash "+fatalClass(outb) == class, trunc(string(outb), 400)
	}
	ok, obs := crashes(c)
	if !ok {
		return nil // the case alone does not crash a fresh process
	}
	min, budget := c, 60
	if chk.Shrink != nil {
		for progressed := true; progressed && budget > 0; {
			progressed = false
			for _, cand := range chk.Shrink(min) {
				if budget--; budget < 0 {
					break
				}
				if again, o := crashes(cand); again {
					min, obs, progressed = cand, o, true
					break
				}
			}
		}
	}
	return &Violation{Property: id, Obs: Obs{Clause: "fatal", Class: class, Observed: obs, Expected: "the call returns (a result or an error)"},
		Case: c, Min: min, MinObs: obs, MinExp: "the call returns (a result or an error)", Sig: Signature("fatal", class, min), Count: 1, Unit: unit}
}

func trunc(s string, n int) string {
	if len(s) > n {
		return s[:n] + "…"
	}
	return s
}

// hardStopAt: deadline + 120 s, handed to the workers (see Worker.pastHardStop).
var hardStopAt int64

func runWorkerProc(exe, id, tier string, work <-chan Unit, results chan<- *UnitResult) {
	for {
		// (re)start a worker process; it serves units until the channel closes or it dies
		cmd := exec.Command(exe, "worker", id, tier)
		cmd.Stderr = os.Stderr
		cmd.Env = append(os.Environ(), "GOMAXPROCS=2")
		if hardStopAt != 0 {
			cmd.Env = append(cmd.Env, fmt.Sprintf("VERIF_HARD_STOP=%d", hardStopAt))
		}
		stdin, _ := cmd.StdinPipe()
		stdout, _ := cmd.StdoutPipe()
		if err := cmd.Start(); err != nil {
			results <- &UnitResult{Fatal: "cannot start worker: " + err.Error()}
			for range work {
			}
			return
		}
		rd := bufio.NewReaderSize(stdout, 1<<20)
		died := false
		var cur Unit
		for u := range work {
			cur = u
			fmt.Fprintln(stdin, u.Name)
			line, err := rd.ReadBytes('\n')
			if err != nil {
				results <- &UnitResult{Unit: u.Name, Fatal: "worker died while running this unit: " + err.Error()}
				died = true
				break
			}
			var r UnitResult
			if err := json.Unmarshal(line, &r); err != nil {
				results <- &UnitResult{Unit: u.Name, Fatal: "bad worker output: " + err.Error()}
				died = true
				break
			}
			results <- &r
			if r.Fatal != "" {
				died = true
				break
			}
		}
		_ = cur
		stdin.Close()
		if died {
			cmd.Process.Kill()
			cmd.Wait()
			continue
		}
		cmd.Wait()
		return
	}
}
