#!/usr/bin/env python3
"""Regenerates /verif/MANIFEST.json from the table below (kept in one place so that the manifest
is always valid). Usage: python3 tools/mkmanifest.py"""
import json, os

HERE = os.path.dirname(os.path.dirname(os.path.abspath(__file__)))

# id -> (claimed?, technique, level text, level note, design section)
CHECKS = {
 "C01": (True,
   'bounded exhaustive exploration of the real API in a statement-counting instrumented build: all token sequences / byte strings / edit neighbourhoods up to a bound x six operations, plus exact step/allocation growth on adversarial families',
   'Every token sequence <= 4/5 over the 28-token alphabet, every byte string <= 4/6 over 16 lexer-class representatives and <= 5/7 over 9 UTF-8 fragment bytes, every 1-edit neighbour of every depth-1 tree text, each with and without default field, is run through Parse, ToPostgres, ToParameterizedPostgres and (on accepted trees) String, GoString, json.Marshal under recover, in a build where every statement of the library increments a counter: a panic, a budget overrun (2x10^6 statements; need < 10^4) or a %! marker is a violation. 4 872 adversarial families frame(block^n) (812 blocks x 6 frames, incl. a fielded group under a default field) are run for n doubling from 16 to 1 024 / 4 096 tokens with exact statement and allocation counts; growth beyond 9x per doubling (from n=64) or beyond 20x the count at the previous size is a violation, with early exit. Added later: token sequences over a format-verb alphabet (values spelling %d %s %v with ^ ~ and numbers) to length 5/7, number-named fields in groups to length 7; every ASCII punctuation character outside the syntax; a worker killed by a Go runtime fatal error (stack exhaustion) is diagnosed through a case journal and reported as clause fatal.',
   "Polynomial time is decided as bounded growth on the enumerated families up to the length bound, not proved asymptotically. Instrumentation is regenerated from /repo's working tree on every run (go build -overlay).",
   "4/C01"),
 "C02": (True,
   "bounded exhaustive exploration of both renderers over all concatenations of hostile fragments in every value slot and lexical form plus all accepted token sequences, each output re-read by PostgreSQL's own grammar and scanner (confinement + whitelist reference)",
   "Every concatenation of <= 2 (thorough 3 on the exposed slots) of 35 hostile fragments (quotes, separators, comment openers, casts, NaN/Inf, NUL, invalid UTF-8, 64-byte runs, format/template placeholders) is placed in each of 8 slots (equality/comparison value, range bounds, list element, bare term, field name, default-field name) in each lexical form that can carry it (quoted, backslash-escaped, raw word) and rendered inline and parameterised; so is every accepted token sequence <= 4/5 with and without default field. Every successful render is parsed inside SELECT 1 FROM t WHERE (<sql>) by PostgreSQL 15's grammar: one statement, everything but the WHERE clause protobuf-equal to the template, no comment or ; token, only whitelisted node kinds, column references ⊆ names the harness wrote, string constants ⊆ values it wrote, numeric constants equal to its numbers, no user-derived constant in parameterised SQL except the documented '*'. Added later: 44 fragments (valid multi-byte text, multi-byte runs of 63/64/66 bytes, non-finite number words in odd letter case) in 10 slots (also the literal part of a wildcard pattern and the body of a regexp).",
   'Grammar-level only (no analysis-time typing); render errors are acceptable; names and values are known to the harness because it built the query (no reliance on Parse).',
   "4/C02"),
 "C03": (True,
   "bounded exhaustive exploration of the inline renderer over all leaf forms and all trees to a depth bound of the filterable fragment, SQL re-read by PostgreSQL's grammar and evaluated against a Lucene-semantics reference on boundary-hitting probe rows",
   "Every leaf form of the filterable fragment (85 leaves: equality on ints incl. int64 extremes, decimals, words, phrases; < <= > >= on int/float/string; every bound-kind x inclusivity range incl. open and doubly open; value lists; patterns) is rendered, read back by PostgreSQL's grammar and evaluated on probe rows hitting every region and boundary its constants cut out, against the leaf's Lucene meaning; every depth-1 tree over all leaves, depth-2 over 6 leaves (thorough depth 3 over 2) with NOT + - AND OR is compared, row by row, with the Boolean combination of its leaves' own SQL (the statement's second formulation). Added later: 181 leaves - one table of numeric spellings (leading zeros, 2^53+-1, int64 extremes) in every numeric slot, quoted numerals as strings, patterns with escapes next to wild cards (escape-aware reference matcher).",
   'First-order evaluator with exact decimal arithmetic and code-point order on both sides; non-NULL rows of matching type; the six ledgered leaf-level defects are listed in known_findings.json.',
   "4/C03"),
 "C04": (True,
   "bounded exhaustive exploration of both renderers on all renderable queries of a tree space and all accepted token sequences, differential oracle (parameter list vs generator's values, placeholder count, semantic equivalence on probe rows, text stability under same-kind substitution)",
   "For every query over the C03 leaves extended with short regexps and one-character patterns at depth <= 1 (value list known to the harness), every tree of T(25,1) ∪ T(6,2) (thorough T(25,2)) and every accepted token sequence <= 4/5, with and without default field: whenever ToPostgres succeeds ToParameterizedPostgres must succeed, carry as many ? as parameters, parameters of kind int/float64/string equal to the query's values left to right (patterns translated, open bounds absent), be readable by PostgreSQL's grammar after rebinding, and evaluate like the inline SQL on every probe row; every single-slot same-kind substitution must leave the SQL text unchanged. Added later: every leaf under 8 field names and every bare-term tree under 5 default-field names spelling ? $1 %s quote blank non-ASCII; reversed ranges; repeated list values.",
   'Equivalence by evaluation (not text). Two ledgered defects (inline %.2f rounding; quoted "*" emitted as constant).',
   "4/C04"),
 "C05": (True,
   'bounded exhaustive exploration of the real parser over all expression trees up to a depth bound, printed by a stratified-grammar reference printer, compared with the tree built through the public constructors',
   'Every tree of depth <= 2 over 25 leaf forms x 7 unary x 2 binary constructors (2.2e6 trees; thorough adds depth 3 over 3 leaves, 2.9e7), every unary chain to length 4/5 and every binary spine to 4/5 leaves is printed with exactly the parentheses the documented table requires (plus: one redundant pair at each node, fully parenthesised) and parsed by the real Parse; the result must be reflect.DeepEqual to the tree built from the same AST with expr.AND/Eq/Rang/... Nothing sampled. Added later: compact printing; value groups in every regrouping; bracket-bearing quoted/regexp text; 11 numeric argument spellings of ^ and ~ at depth 2; left-associative chains of 6..100 copies of every leaf.',
   "Trusts the harness printer's reading of the table (calibrated: the only disagreements on the pinned tree were the repeated-prefix-operator defect, since fixed). General trees deeper than 3 are outside the bound.",
   "4/C05"),
 "C06": (True,
   'bounded exhaustive exploration of the real parser over all token sequences up to a length bound (full and focused alphabets) and edit neighbourhoods of valid queries, each accepted tree checked by a derivation-matcher reference model',
   'All token sequences of length <= 4/5 over a 28-token alphabet with every token type, <= 7-10 over five focused sub-alphabets, and everything within 1-2 token edits of every depth-1 tree rendering, x {no default field, default field}: whenever the real Parse accepts, a memoised recogniser decides whether the returned tree can be laid over the token sequence with the documented productions (term typing, operator consumption, bracket pairing, non-empty groups, term range bounds). Added later: alphabets with patterns and leading-zero numerals; every sequence <= 4/5 over three alphabets embedded in 8 contexts (comparison value, value group, range bound, operand of NOT / AND / OR / + ~).',
   'The matcher is deliberately permissive where the documentation is silent (parenthesised field/distance, mixed range brackets). Sequences longer than the bounds and not near a valid query are outside.',
   "4/C06"),
 "C07": (True,
   'bounded exhaustive exploration of the real parser: all trees to a depth bound x all subsets of AND nodes written as juxtaposition, differential oracle Parse(juxtaposed) == Parse(explicit AND)',
   'For every tree of depth <= 2 over 25 leaf forms (thorough: + depth 3 over 2 and 3 leaves) and every binary spine to 5/6 leaves, every non-empty subset of eligible AND nodes is printed as juxtaposition and parsed; it must parse (core gaps) and be DeepEqual to the parse of the explicit-AND text. 4.5e6 texts in the quick tier. Added later: every token sequence <= 7 over a juxtaposition alphabet against itself with AND written into every core gap; unary chains <= 3 as left operand in five contexts.',
   'Non-core gaps (after a closing bracket or postfix operator, before ( NOT + -) may be rejected; counted in evidence (rejected_noncore). Depth > 3 outside the bound.',
   "4/C07"),
 "C08": (True,
   'bounded exhaustive exploration of lexer+parser+renderers over all strings up to a length bound in every value slot, oracle = the string itself (tree, PostgreSQL-decoded constant, parameter list)',
   "Every string of <= 4/5 runes over 27 characters (28 for escaping) is written quoted resp. with a backslash before every special character as equality value, comparison value, either range bound, list element, bare term (also as the whole query under a default field) and field name; the parsed tree must be exactly the tree with that plain string; for quoted strings the inline SQL constant as decoded by PostgreSQL's scanner and the parameter list must contain exactly that string. Added later: U+FFFD; a refusal by ToPostgres is a violation of the sql clause (the alphabet has no NUL and no invalid UTF-8).",
   'Characters are class representatives; strings Go reads as numbers and the four keywords are excluded from the escaping clause; longer strings are outside the bound.',
   "4/C08"),
 "C09": (True,
   'bounded exhaustive exploration of the real lexer+parser: all token sequences to a length bound x all whitespace fillings / keyword case patterns / redundant-parenthesis placements, metamorphic oracle between two runs',
   'Every token sequence of length <= 4/5 over the 28-token alphabet (accepted and rejected) is re-laid-out with every uniform filler, every single-gap deviation (thorough: two-gap), leading/trailing whitespace, every case pattern of every keyword; every tree text gets redundant parentheses at the root, at each operand of an explicit operator, around each term value and all at once (with and without default field). Parse outcome must be identical (tree DeepEqual; failure preserved for whitespace/case). 2e7 variants quick. Added later: white-space and keyword-case variants on every tree text too, the two dimensions combined (lower-case keyword x compact / tabs), parentheses around the numeric argument of ~ ^, leaves whose quoted/regexp text contains brackets.',
   'Only the four ASCII whitespace characters; empty filler only next to a symbol token so tokens can never fuse.',
   "4/C09"),
 "C10": (True,
   'bounded exhaustive exploration of Parse/ToPostgres/ToParameterizedPostgres over all token sequences, byte strings and edit neighbourhoods up to a bound, with an independent shape-walk reference',
   'Every token sequence <= 4/5 (full alphabet) and <= 6/7 (five focused alphabets), every byte string <= 4/5 over 16 class representatives, every 1-edit neighbour of every depth-1 tree text, each with and without a default field: result pairs must be all-or-nothing, accepted trees must pass Validate and an independent walk of the statement\'s shape rules, render results must be (text,nil) or ("",err). Added later: every sequence <= 5/6 over three alphabets in 8 contexts; every input is parsed twice and the outcome must not change.',
   "Panics are C01's (counted as skipped_upstream). Inputs beyond the bounds are outside.",
   "4/C10"),
 "C11": (True,
   'bounded exhaustive exploration of the real parser: all token sequences / trees up to a bound parsed with and without the option, differential + structural oracle',
   'Every token sequence <= 4/5 (full alphabet) and <= 6/7 (unary and boolean alphabets) with default field D, and every tree text of T(25,1) ∪ T(6,2) (thorough T(25,2)) with four default-field names (plain, with space, with double quote, 70 bytes): acceptance must agree with the option-free parse, erasing the default scoping must give exactly the option-free tree, no bare operand may remain and nothing inside a fielded value may be scoped. Added later: value groups f:(T), T over bare and fielded terms to depth 2, alone / negated / in a conjunction; nested groups.',
   'The default-field name never occurs in the query (precondition of the statement).',
   "4/C11"),
 "C12": (True,
   "bounded exhaustive exploration of the JSON codec on all accepted queries of a tree space built around the codec's corner values, round-trip oracle through encode/decode/print/render",
   'Every accepted text of the trees over 41 leaf forms (the 21 standard ones plus empty strings, quoted * ? /x/, escaped /, 5.0, 1e3, -0, int64 extremes, non-ASCII, a word spelling "min":"max":, float/open/empty bounds) x 8 unary forms (fuzzy 0/1/3, boost 1/2.5) at depth 1 (thorough: depth 2, 1.5e7 trees), and every accepted token sequence <= 4/5, with and without default field: Marshal, Unmarshal, Validate, byte-identical re-encoding, identical String(), identical Render/RenderParam results, and DeepEqual whenever every leaf has the kind the decoder infers. Added later: integers beyond 2^53 in every position; the codec\'s key words as data; control and non-printable characters; bare words over an escape alphabet in 7 slots; every ordered pair of ~110 shapes decoded one after the other into the same variable.',
   "DeepEqual is only demanded under the statement's leaf-kind condition, computed from the original tree.",
   "4/C12"),
 "C13": (True,
   'bounded exhaustive exploration of the decoder and the validated-expression operations over all byte strings of a JSON alphabet and all schema documents to nesting depth 2 (children by shape signature)',
   "Every byte string <= 4/5 over 21 JSON symbols (punctuation, digits, letters, the schema's key words) and every document {left, operator, right, extras} over 22 leaf values x 22 operator names x (values ∪ 243 boundary objects) is decoded by the real UnmarshalJSON under recover; whatever decodes and validates is printed, re-encoded and rendered both ways under recover. Depth 2 pairs every representative of a decoded-shape signature (≈1 000 validated, ≈2 000 all) with every plain value and every coarse representative. Added later: documents that fail Validate and would make an operation panic, buried under 2..1025 levels of four wrappers; SQL-hostile strings inside arrays as bounds; boundary-shaped objects inside boundary members; list-element / range-bound / array wrappers; fatal crashes diagnosed as in C01.",
   'Depth-2 children are abstracted by shape signature (operator, dynamic types, string classes the code branches on, render outcome), recomputed from the implementation on every run; depth 1 is exhaustive without abstraction.',
   "4/C13"),
 "C14": (True,
   "stateless model checking of the real library under a hand-written cooperative scheduler: statement points inserted by source instrumentation, all schedules up to a preemption bound for all ordered operation pairs on colliding inputs; plus exhaustive 2-call sequences against fresh-process references; free-running -race run as complement",
   "The library source is instrumented from the working tree (a vsched.Point before every statement, via go build -overlay); harness threads run one at a time and the explorer enumerates every schedule with <= 1 preemption before any statement for all 121 ordered pairs of the 11 operations on a query that drives every shared table (same shared *Expression, same package-level driver), for 16 pairs of text operations on two different long queries (and 3-thread variants), every schedule with 2 preemptions where the second sits at a statement naming a package-level variable, 3 preemptions at such statements, and 3-thread scenarios at 1 preemption (thorough: 3 queries, 2 preemptions at function entries / anywhere for heavy pairs). Every schedule starts from the same history (a checked sequential prelude); per schedule: no panic, each thread's result equals its sequential reference, shared expressions DeepEqual to a fresh parse; the first schedule of every scenario is replayed and compared; real locks inside the library are survived (stall detection, free-running completion). E1: all 420k two-call sequences over 11 ops x 59 queries (incl. pairs a normalising cache would confuse) in one process against references computed in fresh processes. Added later: returned values (expression, parameter slice, encoded bytes) are read again after every later call of a sequence; a second value of the default-field option on the other thread; long value lists, a 140-term query, lower-case keywords as scenario inputs; the README's driver customisation as an operation; shared expressions built through the constructors with values Parse never produces.",
   "Granularity is the Go statement; torn writes inside one statement and races that do not change a result within the bound are left to the free-running -race complement (same bodies, 8 goroutines, GORACE=halt_on_error), which is reported but is not the deciding step.",
   "4/C14"),
 "C15": (True,
   'bounded exhaustive exploration of driver.Base.Render over configurations x trees with tracing render functions, checked against a fold reference model',
   'All 41 configurations (all-tracing map, 19 single-operator overrides, 19 single-operator removals, the README construction) x every tree of T(25,1) ∪ T(6,2) (thorough T(25,2)) obtained both by Parse and through the public constructors: the call log must be exactly one call per node, to the function registered for that node\'s operator, after its children, with its children\'s results as (left, right) wrapped in parentheses at most, and Render\'s result must be the root call\'s result; with an operator removed Render must return ("", error) iff the tree contains it; ToPostgres/ToParameterizedPostgres must fail on every text containing ~ or ^, also after Fuzzy/Boost functions were registered in the function map of another driver. Added later: trees only the constructors can build; every operator\'s function returning the empty string; ~ and ^ anywhere inside a field\'s value group; a driver\'s private map.',
   'Serialisation of raw leaf values and the order in which independent children are rendered are not constrained (not part of the statement).',
   "4/C15"),
 "C16": (True,
   "bounded exhaustive (stateless) exploration of the real lexer: all byte strings over class representatives x all Peek/Next call sequences, against a token-list-with-cursor reference model",
   "Every byte string of length <= L (5/6) over 17 lexer-class representatives incl. a multi-byte digit (and <= L+1 over 9 UTF-8 fragment bytes) is lexed by the real internal/lex; on each input every Peek/Next call sequence of length <= D is replayed on a fresh lexer and compared step by step with a stream model (token list + cursor); segmentation, EOF stickiness, must-fail classes and a must-lex class (blank-separated plain words are exactly those literal tokens), all decided without the lexer's rules, are checked on every input. Exhaustive inside the bounds, nothing sampled. Added later: byte alphabets for keyword letters, symbol runes aliasing ASCII symbols under truncation / width folding, CR LF inside tokens; a reference scanner decides the must-fail classes for every valid UTF-8 input.",
   "Trusts: Go runtime; characters are represented by lexer class; inputs longer than L and call sequences longer than D are outside the bound.",
   "4/C16"),
}

PENDING_REASON = "check not built yet in this revision of /verif (planned: see DESIGN.md section 4); not claimed until it has been seen passing on the pinned tree and failing on a seeded change"

def main():
    checks, na = [], []
    for pid in sorted(CHECKS):
        claimed, tech, text, note, ref = CHECKS[pid]
        if not claimed:
            na.append({"property_id": pid, "reason": PENDING_REASON})
            continue
        checks.append({
            "property_id": pid,
            "quick_cmd": f"./run {pid} quick",
            "thorough_cmd": f"./run {pid} thorough",
            "evidence_file": f"/verif/evidence/{pid}.json",
            "replay_cmd_template": "./run replay {path}",
            "engine": "vcheck",
            "level_claimed": {"category": "model_checking", "text": text, "design_ref": "DESIGN.md " + ref},
            "level_note": note,
            "technique": tech,
        })
    m = {
        "version": 1,
        "setup_cmd": "./run setup",
        "hooks": {
            "guard": "verif",
            "enable": "no guarded code exists in /repo: instrumentation (statement points, package-level variable dumps) is generated from /repo's working tree on every run and applied with `go build -overlay` (harness/cmd/vinstr); the build tag `verif` is reserved",
            "baseline_off_cmd": "cd /repo && go test -mod=mod -vet=off -count=1 -timeout 25m ./... && cd /repo/fuzz && go test -mod=mod -vet=off -count=1 -timeout 25m ./...",
            "source_commits": [],
            "add_only": True,
        },
        "engines": [
            {"name": "vcheck", "path": "harness/cmd/vcheck", "serves_properties": sorted(p for p in CHECKS if CHECKS[p][0]),
             "kind_free_text": "hand-written stateless bounded-exhaustive explorer (prefix-tree DFS over inputs / operation sequences / schedules) sharded over worker processes; oracles are reference models in Go and PostgreSQL's own parser (pg_query_go)"},
        ],
        "checks": checks,
        "notes": "All checks: exit 0 = held on everything explored (KNOWN-FINDING lines for ledgered defects in known_findings.json), exit 1 + VIOLATION line otherwise. Deadlines end a run with exhaustive:false, never with a violation.",
        "not_applicable": na,
    }
    with open(os.path.join(HERE, "MANIFEST.json"), "w") as f:
        json.dump(m, f, indent=1)
        f.write("\n")

if __name__ == "__main__":
    main()
