#!/usr/bin/env python3
"""Behaviour-preserving changes (from sub-agents asked for refactorings that keep every property):
  benign.py import   copy /tmp/wt3/Bn.out/{a,b}.diff to seeded/benign/, check they apply, build and pass the repository tests
  benign.py run [name...]  apply each to /repo, run ALL quick checks, expect exit 0 everywhere, revert"""
import fcntl, json, os, shutil, subprocess, sys, time
OUT = '/verif/seeded/benign'
WT = '/tmp/wt/verify'
ENV = dict(os.environ, GOPROXY='off', GOSUMDB='off', GOTOOLCHAIN='local'); ENV.pop('GOFLAGS', None)
def sh(cmd, cwd=None, env=None, timeout=3600):
    return subprocess.run(cmd, shell=True, cwd=cwd, env=env, capture_output=True, text=True, errors='replace', timeout=timeout)
def imp():
    os.makedirs(OUT, exist_ok=True)
    head = sh('git -C /repo rev-parse HEAD').stdout.strip()
    for i in range(1, 7):
        for v in 'ab':
            src = '/tmp/wt3/B%d.out/%s.diff' % (i, v)
            if not os.path.exists(src):
                print('missing', src); continue
            sh('git checkout -q --detach %s && git reset -q --hard %s && git clean -fdq' % (head, head), cwd=WT)
            a = sh('git apply %s' % src, cwd=WT)
            if a.returncode != 0:
                print('B%d-%s does not apply' % (i, v), a.stderr[:200]); continue
            ok = True
            for d in ('', 'fuzz'):
                r = sh('go test -vet=off -count=1 ./... 2>&1', cwd=os.path.join(WT, d), env=ENV)
                ok = ok and r.returncode == 0
            name = 'B%d-%s' % (i, v)
            d = os.path.join(OUT, name); os.makedirs(d, exist_ok=True)
            shutil.copy(src, os.path.join(d, 'patch.diff'))
            shutil.copy('/tmp/wt3/B%d.out/notes.md' % i, os.path.join(d, 'agent_notes.md'))
            lines = sum(1 for l in open(src) if (l.startswith('+') or l.startswith('-')) and not l.startswith('+++') and not l.startswith('---'))
            json.dump({"name": name, "origin": "independent sub-agent asked for a behaviour-preserving change (given all 16 property statements)",
                       "repository_tests_pass": ok, "changed_lines": lines, "base_commit": head[:7]}, open(os.path.join(d, 'meta.json'), 'w'), indent=1)
            print(name, 'imported; repository tests pass =', ok, 'changed lines =', lines)
    sh('git checkout -q --detach %s && git reset -q --hard && git clean -fdq' % head, cwd=WT)
def run(names):
    ids = ['C%02d' % i for i in range(1, 17)]
    for name in sorted(os.listdir(OUT)):
        if names and name not in names: continue
        d = os.path.join(OUT, name)
        meta = json.load(open(os.path.join(d, 'meta.json')))
        if sh('git -C /repo status --porcelain').stdout.strip():
            print('REPO NOT CLEAN'); return
        if sh('git -C /repo apply %s/patch.diff' % d).returncode != 0:
            print(name, 'CANNOT APPLY'); continue
        res = {}
        try:
            for c in ids:
                t0 = time.time()
                r = sh('./run %s quick 2>&1' % c, cwd='/verif')
                viol = [l for l in r.stdout.splitlines() if l.startswith('VIOLATION')]
                first = ''
                L = r.stdout.splitlines()
                for k, l in enumerate(L):
                    if l.startswith('VIOLATION'):
                        first = ' | '.join(x.strip() for x in L[k+1:k+4]); break
                st = 'silent' if r.returncode == 0 and not viol else ('ALARM' if viol else 'ERROR rc=%d: %s' % (r.returncode, r.stdout[-300:].replace('\n', ' ')))
                res[c] = {"status": st, "wall_s": round(time.time() - t0, 1), "first": first[:400]}
                print('%-6s %-4s %-8s %6.1fs %s' % (name, c, st[:60], time.time() - t0, first[:200]), flush=True)
        finally:
            sh('git -C /repo checkout -- . && git -C /repo clean -fdq')
        meta['results'] = res
        json.dump(meta, open(os.path.join(d, 'meta.json'), 'w'), indent=1)
if __name__ == '__main__':
    _lock = open('/tmp/repo-mutation.lock', 'w'); fcntl.flock(_lock, fcntl.LOCK_EX)
    if sys.argv[1] == 'import': imp()
    else: run(sys.argv[2:])
