#!/bin/bash
# Runs the repository's own test suite the way /root/.vp/BASELINE.json does (both modules,
# workspace mode), on the tree given as $1 (default /repo). Prints pass/fail counts.
R="${1:-/repo}"
export GOPROXY=off GOSUMDB=off GOTOOLCHAIN=local
unset GOFLAGS
rc=0
for m in . fuzz; do
  out=$(cd "$R/$m" && MF=""; gw=$(go env GOWORK 2>/dev/null); if [ -z "$gw" ] || [ "$gw" = off ]; then MF="-mod=mod"; fi; go test $MF -json -vet=off -count=1 -timeout 25m ./... 2>&1)
  p=$(echo "$out" | grep -c '"Action":"pass","Package":[^}]*"Test"')
  f=$(echo "$out" | grep -c '"Action":"fail"')
  echo "module $m: test passes=$p fails=$f"
  if [ "$f" != 0 ]; then rc=1; echo "$out" | grep '"Action":"fail"' | head -5; echo "$out" | grep -v '"Action"' | head -20; fi
done
exit $rc
