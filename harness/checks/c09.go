package checks

import (
	"fmt"
	"strconv"
	"strings"

	"github.com/grindlemire/go-lucene/pkg/lucene/expr"
	"github.com/grindlemire/go-lucene/verif/core"
	"github.com/grindlemire/go-lucene/verif/enum"
	"github.com/grindlemire/go-lucene/verif/qast"
)

// C09 — layout does not change meaning.
//
// Case: Kind "ws" | "case" | "paren"; In = base text (tokens joined by single spaces);
// In2 = variant text; Aux = the transformation that produced In2 from In (so that shrinking can
// re-apply it); Tree for "paren". Oracle: base parses => variant parses to a DeepEqual tree;
// for ws / case also: base fails => variant fails.

var wsFillers = []string{"\t", "\n", "\r", "  ", " \t\r\n"}

func init() {
	core.Register(&core.Check{
		ID:    "C09",
		Title: "Layout does not change meaning",
		Units: func(tier string) []core.Unit {
			n := 4
			if tier == "thorough" {
				n = 5
			}
			var us []core.Unit
			for _, u := range enum.SeqUnits("tok", "full", len(enum.SigmaFull), n, 2) {
				us = append(us, core.Unit{Name: u})
			}
			add := func(names []string, w int) {
				for _, x := range names {
					us = append(us, core.Unit{Name: x, Weight: w})
				}
			}
			add(qast.TreeUnits("tree|full|1|var", len(treeSet("full0")), 1), 1)
			add(qast.TreeUnits("tree|small6|2|var", len(treeSet("small1")), 8), 2)
			// leaves whose quoted / regexp / escaped text contains brackets, colons and key words
			add(qast.TreeUnits("tree|c05x|1|var", len(treeSet("c05x0")), 1), 1)
			if tier == "thorough" {
				add(qast.TreeUnits("tree|full|2|var", len(treeSet("full1")), 60), 4)
			}
			return us
		},
		Run:    c09Run,
		Eval:   c09Eval,
		Shrink: c09Shrink,
		Rule: "bases: TOK(Σ_full,N) (accepted and rejected) and TREE texts (all variants on both); variants: every gap filled uniformly from {tab, newline, CR, two spaces, mixed} and with nothing where the neighbours cannot fuse, " +
			"every single-gap deviation, leading/trailing fillings; every case pattern of every keyword occurrence; redundant parentheses at the root, at each operand of an explicit operator (the numeric argument of ~ ^ included) and around each term value; " +
			"non-trivial = base parses; distinct = distinct base trees; states count variants",
		Assumptions: []string{"only the four ASCII whitespace characters the lexer documents", "the empty filler is used only next to a symbol token ()[]{}:+=><~^ (never merges tokens)"},
		Bounds: func(tier string) map[string]any {
			if tier == "thorough" {
				return map[string]any{"N": 5, "paren_trees": "T(25,2)", "two_gap_deviations_upto_N": 4}
			}
			return map[string]any{"N": 4, "paren_trees": "T(25,1) ∪ T(6,2)"}
		},
		Deadline: func(tier string) int {
			if tier == "thorough" {
				return 1000
			}
			return 300
		},
	})
}

func isSym(t string) bool {
	return len(t) == 1 && strings.Contains("()[]{}:+=><~^", t)
}

// applyLayout builds the variant text of toks under spec; ok=false if the spec does not apply.
//
//	u:<f>        every gap filled with filler #f ("e" = empty where separable, single space elsewhere)
//	g:<i>:<f>    gap i filled with filler #f, others single space
//	gg:<i>:<f>:<j>:<h>  two gaps
//	lead:<f> / trail:<f> / both:<f>
//	case:<i>:<pattern>   token i (a keyword) written as <pattern>
//	cu:<i>:<pattern>:<f>  both: token i re-cased and every gap filled with filler #f
//	lower        every keyword in lower case
func applyLayout(toks []string, spec string) (string, bool) {
	p := strings.Split(spec, ":")
	filler := func(s string, i int) (string, bool) {
		if s == "e" {
			if i >= 0 && i+1 < len(toks) && (isSym(toks[i]) || isSym(toks[i+1])) {
				return "", true
			}
			return " ", false
		}
		k, err := strconv.Atoi(s)
		if err != nil || k < 0 || k >= len(wsFillers) {
			return "", false
		}
		return wsFillers[k], true
	}
	join := func(gap func(i int) string) string {
		var sb strings.Builder
		for i, t := range toks {
			if i > 0 {
				sb.WriteString(gap(i - 1))
			}
			sb.WriteString(t)
		}
		return sb.String()
	}
	switch p[0] {
	case "cu":
		// cu:<i>:<pattern>:<f>: keyword i re-cased, then every gap filled with filler f
		if len(p) != 4 {
			return "", false
		}
		cased, ok := applyLayout(toks, "case:"+p[1]+":"+p[2])
		if !ok {
			return "", false
		}
		return applyLayout(splitTokens(cased), "u:"+p[3])
	case "u":
		any := false
		s := join(func(i int) string {
			f, ok := filler(p[1], i)
			any = any || ok
			return f
		})
		return s, any
	case "g":
		gi, _ := strconv.Atoi(p[1])
		if gi >= len(toks)-1 {
			return "", false
		}
		f, ok := filler(p[2], gi)
		if !ok {
			return "", false
		}
		return join(func(i int) string {
			if i == gi {
				return f
			}
			return " "
		}), true
	case "gg":
		gi, _ := strconv.Atoi(p[1])
		gj, _ := strconv.Atoi(p[3])
		if gi >= len(toks)-1 || gj >= len(toks)-1 {
			return "", false
		}
		f1, ok1 := filler(p[2], gi)
		f2, ok2 := filler(p[4], gj)
		if !ok1 || !ok2 {
			return "", false
		}
		return join(func(i int) string {
			if i == gi {
				return f1
			}
			if i == gj {
				return f2
			}
			return " "
		}), true
	case "lead", "trail", "both":
		f, ok := filler(p[1], -1)
		if !ok {
			return "", false
		}
		s := strings.Join(toks, " ")
		switch p[0] {
		case "lead":
			return f + s, true
		case "trail":
			return s + f, true
		}
		return f + s + f, true
	case "case":
		ti, _ := strconv.Atoi(p[1])
		if ti >= len(toks) || !isKeyword(toks[ti]) || len(p[2]) != len(toks[ti]) || !strings.EqualFold(p[2], toks[ti]) {
			return "", false
		}
		t := append([]string{}, toks...)
		t[ti] = p[2]
		return strings.Join(t, " "), true
	case "lower":
		t := append([]string{}, toks...)
		any := false
		for i := range t {
			if isKeyword(t[i]) {
				t[i] = strings.ToLower(t[i])
				any = true
			}
		}
		return strings.Join(t, " "), any
	}
	return "", false
}

func isKeyword(t string) bool { return t == "AND" || t == "OR" || t == "NOT" || t == "TO" }

func casePatterns(kw string) []string {
	n := len(kw)
	var out []string
	for m := 1; m < 1<<n; m++ { // m=0 is the upper-case original
		b := []byte(kw)
		for i := 0; i < n; i++ {
			if m&(1<<i) != 0 {
				b[i] = b[i] + 32
			}
		}
		out = append(out, string(b))
	}
	return out
}

// layoutSpecs lists the variant specs for a base of n tokens.
func layoutSpecs(toks []string, twoGap bool) []string {
	var specs []string
	n := len(toks)
	if n == 0 {
		return nil
	}
	for f := range wsFillers {
		specs = append(specs, fmt.Sprintf("u:%d", f))
	}
	specs = append(specs, "u:e")
	specs = append(specs, "lead:0", "trail:1", "both:4", "lead:3")
	for g := 0; g < n-1; g++ {
		for f := range wsFillers {
			specs = append(specs, fmt.Sprintf("g:%d:%d", g, f))
		}
		specs = append(specs, fmt.Sprintf("g:%d:e", g))
	}
	if twoGap {
		fs := []string{"0", "1", "e"}
		for g := 0; g < n-1; g++ {
			for h := g + 1; h < n-1; h++ {
				for _, a := range fs {
					for _, b := range fs {
						specs = append(specs, fmt.Sprintf("gg:%d:%s:%d:%s", g, a, h, b))
					}
				}
			}
		}
	}
	for i, t := range toks {
		if isKeyword(t) {
			for _, pat := range casePatterns(t) {
				specs = append(specs, fmt.Sprintf("case:%d:%s", i, pat))
			}
			// the two dimensions together: one keyword in lower case, written compactly / with tabs
			low := strings.ToLower(t)
			specs = append(specs, fmt.Sprintf("cu:%d:%s:e", i, low), fmt.Sprintf("cu:%d:%s:0", i, low))
		}
	}
	specs = append(specs, "lower")
	return specs
}

type parsed struct {
	e   *expr.Expression
	err error
	pi  *core.PanicInfo
}

func doParse(in string, df core.BStr) parsed {
	e, err, pi := parse(in, df)
	return parsed{e, err, pi}
}

// c09Compare is the oracle on two parse results. strict: also demand failure preservation.
func c09Compare(base, v parsed, strict bool) (class, obs, exp string) {
	if base.pi != nil || v.pi != nil {
		return "", "", "" // C01 owns panics
	}
	if base.err == nil && base.e != nil {
		if v.err != nil || v.e == nil {
			return "variant-rejected", fmt.Sprintf("variant fails: %v", v.err), "variant parses to " + gostr(base.e)
		}
		if !deepEqual(base.e, v.e) {
			return "different-tree", gostr(v.e), gostr(base.e)
		}
		return "", "", ""
	}
	if strict && v.err == nil && v.e != nil {
		return "variant-accepted", "variant parses to " + gostr(v.e), fmt.Sprintf("variant fails like the base (%v)", base.err)
	}
	return "", "", ""
}

func c09Run(w *core.Worker, tier, unit string) {
	if strings.HasPrefix(unit, "tok|") {
		alpha := enum.UnitAlphabet(unit)
		enum.EnumSeqUnit(unit, len(alpha), func(seq []int) {
			if w.Flooded() {
				return
			}
			toks := make([]string, len(seq))
			for i, s := range seq {
				toks[i] = alpha[s]
			}
			baseText := strings.Join(toks, " ")
			bc := core.Case{Kind: "ws", In: core.BStr(baseText)}
			core.Guard(&bc)
			base := doParse(baseText, "")
			if base.pi != nil {
				core.Unguard()
				w.Count("skipped_upstream_panic", 1)
				return
			}
			if base.err == nil && base.e != nil {
				w.Seen(treeHash(base.e), func() core.Case { return bc })
			}
			for _, spec := range layoutSpecs(toks, tier == "thorough" && len(toks) <= 4) {
				vt, ok := applyLayout(toks, spec)
				if !ok || vt == baseText {
					continue
				}
				v := doParse(vt, "")
				if class, _, _ := c09Compare(base, v, true); class != "" {
					kind := "ws"
					if strings.HasPrefix(spec, "case") || strings.HasPrefix(spec, "cu:") || spec == "lower" {
						kind = "case"
					}
					core.Unguard()
					w.Do(core.Case{Kind: kind, In: core.BStr(baseText), In2: core.BStr(vt), Aux: core.BStr(spec)})
					core.Guard(&bc)
				} else {
					w.Tick(1)
				}
			}
			core.Unguard()
		})
		return
	}
	// redundant parentheses on tree texts
	leaves, sub := treeUnitSets(unit)
	_, eu := stripTreeUnit(unit)
	qast.EnumTreeUnit(eu, leaves, sub, func(t *qast.Node) {
		if w.Flooded() {
			return
		}
		enc := ""
		baseText := qast.Text(t, nil)
		for _, df := range []core.BStr{"", "D"} {
			bc := core.Case{Kind: "paren", In: core.BStr(baseText), DF: df}
			core.Guard(&bc)
			base := doParse(baseText, df)
			if base.pi != nil || base.err != nil || base.e == nil {
				core.Unguard()
				w.Count("skipped_base_rejected", 1)
				continue
			}
			w.Seen(treeHash(base.e), func() core.Case { return bc })
			for _, spec := range parenSpecs(t) {
				vt, ok := applyParens(t, spec)
				if !ok || vt == baseText {
					continue
				}
				v := doParse(vt, df)
				if class, _, _ := c09Compare(base, v, false); class != "" {
					if enc == "" {
						enc = qast.Encode(t)
					}
					core.Unguard()
					w.Do(core.Case{Kind: "paren", In: core.BStr(baseText), In2: core.BStr(vt), DF: df, Aux: core.BStr(spec), Tree: enc})
					core.Guard(&bc)
				} else {
					w.Tick(1)
				}
			}
			// white space and keyword case on the tree's text too (value lists, ranges and groups are
			// longer than the token-sequence bound)
			toks := splitTokens(baseText)
			for _, spec := range layoutSpecs(toks, false) {
				vt, ok := applyLayout(toks, spec)
				if !ok || vt == baseText {
					continue
				}
				v := doParse(vt, df)
				if class, _, _ := c09Compare(base, v, true); class != "" {
					kind := "ws"
					if strings.HasPrefix(spec, "case") || strings.HasPrefix(spec, "cu:") || spec == "lower" {
						kind = "case"
					}
					core.Unguard()
					w.Do(core.Case{Kind: kind, In: core.BStr(baseText), In2: core.BStr(vt), DF: df, Aux: core.BStr(spec)})
					core.Guard(&bc)
				} else {
					w.Tick(1)
				}
			}
			core.Unguard()
		}
	})
}

// parenSpecs: "root", "op:<preorder idx of an operand of an explicit operator>",
// "val:<preorder idx of an eq leaf with a term value>", "all".
func parenSpecs(t *qast.Node) []string {
	specs := []string{"root"}
	idx := 0
	var operands, vals, args []int
	var rec func(n *qast.Node, isOperand bool)
	rec = func(n *qast.Node, isOperand bool) {
		my := idx
		idx++
		if isOperand {
			operands = append(operands, my)
		}
		if (n.Op == qast.OFuzzy || n.Op == qast.OBoost) && n.Arg != "" {
			args = append(args, my)
		}
		if n.Op == qast.OLeaf {
			if n.Leaf.Kind == qast.LEq {
				vals = append(vals, my)
			}
			return
		}
		rec(n.L, true)
		if n.R != nil {
			rec(n.R, true)
		}
	}
	rec(t, false)
	for _, i := range operands {
		specs = append(specs, fmt.Sprintf("op:%d", i))
	}
	for _, i := range vals {
		specs = append(specs, fmt.Sprintf("val:%d", i))
	}
	// the numeric argument of ~ and ^ is an operand of an explicitly written operator too
	for _, i := range args {
		specs = append(specs, fmt.Sprintf("arg:%d", i))
	}
	if len(operands)+len(vals) > 1 {
		specs = append(specs, "all")
	}
	return specs
}

func applyParens(t *qast.Node, spec string) (string, bool) {
	o := &qast.PrintOpts{Extra: map[*qast.Node]bool{}, ValueParens: map[*qast.Leaf]bool{}, ArgParens: map[*qast.Node]bool{}}
	p := strings.Split(spec, ":")
	want := -1
	if len(p) == 2 {
		want, _ = strconv.Atoi(p[1])
	}
	idx := 0
	found := false
	var rec func(n *qast.Node, isOperand bool)
	rec = func(n *qast.Node, isOperand bool) {
		my := idx
		idx++
		switch p[0] {
		case "root":
			if my == 0 {
				o.Extra[n] = true
				found = true
			}
		case "op":
			if my == want && isOperand {
				o.Extra[n] = true
				found = true
			}
		case "val":
			if my == want && n.Op == qast.OLeaf && n.Leaf.Kind == qast.LEq {
				o.ValueParens[n.Leaf] = true
				found = true
			}
		case "arg":
			if my == want && (n.Op == qast.OFuzzy || n.Op == qast.OBoost) && n.Arg != "" {
				o.ArgParens[n] = true
				found = true
			}
		case "all":
			if isOperand {
				o.Extra[n] = true
				found = true
			}
			if n.Op == qast.OLeaf && n.Leaf.Kind == qast.LEq {
				o.ValueParens[n.Leaf] = true
				found = true
			}
		}
		if n.Op == qast.OLeaf {
			return
		}
		rec(n.L, true)
		if n.R != nil {
			rec(n.R, true)
		}
	}
	rec(t, false)
	if !found {
		return "", false
	}
	return qast.Text(t, o), true
}

func c09Eval(c core.Case) (res core.Result) {
	base := doParse(string(c.In), c.DF)
	v := doParse(string(c.In2), c.DF)
	if base.pi != nil || v.pi != nil {
		res.Tags = append(res.Tags, "skipped_upstream_panic")
		return
	}
	if base.err == nil && base.e != nil {
		res.Nontrivial = true
		res.Hash = treeHash(base.e)
	}
	class, obs, exp := c09Compare(base, v, c.Kind != "paren")
	if class != "" {
		res.Obs = append(res.Obs, core.Obs{Clause: c.Kind, Class: class, Observed: obs, Expected: exp})
	}
	return
}

func c09Shrink(c core.Case) []core.Case {
	var out []core.Case
	if c.Kind == "paren" {
		t, err := qast.Decode(c.Tree)
		if err != nil {
			return nil
		}
		for _, s := range shrinkTrees(t) {
			for _, spec := range parenSpecs(s) {
				vt, ok := applyParens(s, spec)
				if !ok {
					continue
				}
				d := c
				d.Tree = qast.Encode(s)
				d.In = core.BStr(qast.Text(s, nil))
				d.In2 = core.BStr(vt)
				d.Aux = core.BStr(spec)
				if d.In != d.In2 {
					out = append(out, d)
				}
			}
		}
		if c.DF != "" {
			d := c
			d.DF = ""
			out = append(out, d)
		}
		return out
	}
	// ws / case: shrink the base tokens, re-apply the same transformation
	for _, cand := range shrinkTokens(core.Case{Kind: c.Kind, In: c.In}) {
		toks := splitTokens(string(cand.In))
		specs := []string{string(c.Aux)}
		// positions shift when tokens are dropped: also try the spec at neighbouring positions
		p := strings.Split(string(c.Aux), ":")
		if (p[0] == "g" || p[0] == "case") && len(p) == 3 {
			if i, err := strconv.Atoi(p[1]); err == nil && i > 0 {
				specs = append(specs, fmt.Sprintf("%s:%d:%s", p[0], i-1, p[2]))
			}
		}
		if p[0] == "cu" && len(p) == 4 {
			if i, err := strconv.Atoi(p[1]); err == nil {
				for j := i - 1; j >= 0 && j >= i-3; j-- {
					specs = append(specs, fmt.Sprintf("cu:%d:%s:%s", j, p[2], p[3]))
				}
			}
		}
		for _, spec := range specs {
			vt, ok := applyLayout(toks, spec)
			if !ok || vt == string(cand.In) {
				continue
			}
			d := c
			d.In = cand.In
			d.In2 = core.BStr(vt)
			d.Aux = core.BStr(spec)
			out = append(out, d)
		}
	}
	return out
}
