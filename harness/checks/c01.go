//go:build instr

package checks

import (
	"encoding/json"
	"fmt"
	"runtime"
	"strconv"
	"strings"

	lucene "github.com/grindlemire/go-lucene"
	"github.com/grindlemire/go-lucene/internal/vsched"
	"github.com/grindlemire/go-lucene/pkg/lucene/expr"
	"github.com/grindlemire/go-lucene/verif/core"
	"github.com/grindlemire/go-lucene/verif/enum"
)

// C01 — parsing and rendering are total: no panic, no hang, no garbled output.
//
// Runs in the statement-counting build. Case kinds:
//   "tok" / "bytes": In = input, DF = default field. The six operations run under recover with a
//       statement budget; clauses: panic, budget, marker ("%!" in produced text).
//   "family": In = block of 1-2 tokens, Aux = "<frame>|<maxN>"; the input frame(block^n) is run
//       for n = 64, 128, ... maxN and the exact statement counts S(n) and allocated bytes A(n)
//       must grow at most cubically (S(2n) <= 9 S(n), A(2n) <= 9 A(n) for n >= 256) and stay
//       under an absolute cap; clause: growth.

const (
	c01Budget       = 2_000_000     // statements per call for inputs of <= 16 tokens (need: < 10^4)
	c01FamilyBudget = 2_000_000_000 // absolute cap for one call on a 10^4-token input
)

var frames = []string{"%s", "a : %s", "%s a", "( %s )", "a : ( %s a )", "( %s a ) AND b"}

func init() {
	core.Register(&core.Check{
		ID:          "C01",
		OwnsCrashes: true,
		Title:       "Parsing and rendering are total: no panic, no hang, no garbled output",
		Instr:       true,
		Units: func(tier string) []core.Unit {
			n, l := 4, 4
			if tier == "thorough" {
				n, l = 5, 6
			}
			var us []core.Unit
			for _, u := range enum.SeqUnits("tok", "full", len(enum.SigmaFull), n, 2) {
				us = append(us, core.Unit{Name: u, Weight: 2})
			}
			for _, u := range enum.SeqUnits("bytes", "lex", len(enum.ByteAlphabets["lex"]), l, 2) {
				us = append(us, core.Unit{Name: u})
			}
			for _, u := range enum.SeqUnits("bytes", "utf8", len(enum.ByteAlphabets["utf8"]), l+1, 2) {
				us = append(us, core.Unit{Name: u})
			}
			for _, u := range enum.SeqUnits("bytes", "punct", len(enum.ByteAlphabets["punct"]), 3, 1) {
				us = append(us, core.Unit{Name: u})
			}
			if tier != "thorough" {
				// one small focused alphabet in the quick tier too: fielded groups with numeric field names
				for _, u := range enum.SeqUnits("tok", "nf", len(enum.Alphabets["nf"]), 7, 2) {
					us = append(us, core.Unit{Name: u, Weight: 2})
				}
			}
			// values spelling format verbs, with the operators whose printing goes through a formatter
			fm := 5
			if tier == "thorough" {
				fm = 7
			}
			for _, u := range enum.SeqUnits("tok", "fmt", len(enum.Alphabets["fmt"]), fm, 2) {
				us = append(us, core.Unit{Name: u, Weight: 2})
			}
			if tier == "thorough" {
				for _, a := range []string{"paren", "range", "unary", "bool", "cmp"} {
					for _, u := range enum.SeqUnits("tok", a, len(enum.Alphabets[a]), 8, 2) {
						us = append(us, core.Unit{Name: u, Weight: 2})
					}
				}
			}
			us = append(us, editUnits(tier)...)
			maxN := 1024
			if tier == "thorough" {
				maxN = 4096 // printing a 4096-deep tree is already quadratic (10^8 bytes per call)
			}
			for i := range enum.SigmaFull {
				for f := range frames {
					fw := 9 // quick: the growth families first - on a tree that made parsing super-linear the exhaustive spaces would eat the deadline
					if tier == "thorough" {
						fw = 0 // thorough: the families to 4096 tokens run after the exhaustive spaces, so a deadline cuts them first
					}
					us = append(us, core.Unit{Name: fmt.Sprintf("family|%d|%d|%d", i, maxN, f), Weight: fw})
					// first stage, always early: every family to 128 tokens only (a blow-up shows at 64-128 tokens,
					// long before the big sizes make each call slow)
					us = append(us, core.Unit{Name: fmt.Sprintf("family|%d|%d|%d", i, 128, f), Weight: 10})
				}
			}
			return us
		},
		Run: func(w *core.Worker, tier, unit string) {
			if strings.HasPrefix(unit, "family|") {
				p := strings.Split(unit, "|")
				i, _ := strconv.Atoi(p[1])
				blocks := []string{enum.SigmaFull[i]}
				for _, t := range enum.SigmaFull {
					blocks = append(blocks, enum.SigmaFull[i]+" "+t)
				}
				f, _ := strconv.Atoi(p[3])
				bad := int64(0)
				for _, b := range blocks {
					before := w.Counters["violating_cases"]
					w.Do(core.Case{Kind: "family", In: core.BStr(b), Aux: core.BStr(fmt.Sprintf("%d|%s", f, p[2]))})
					if w.Counters["violating_cases"] > before {
						bad++
					}
					if bad >= 2 || w.Flooded() {
						// every further block of this frame would burn the same budget again
						w.Inexhaust = "family unit stopped after 2 violating blocks"
						break
					}
				}
				return
			}
			runFlat(w, unit, []core.BStr{"", "D"})
		},
		Eval:   c01Eval,
		Shrink: shrinkFlat,
		Rule: "TOK(Σ_full,N) ∪ TOK(Σ_nf,7) ∪ TOK(Σ_fmt,5/7) ∪ BYTES(B_lex,L) ∪ BYTES(B_utf8,L+1) ∪ EDIT(1) of depth-1 trees (thorough: + five focused alphabets to length 8, EDIT on depth-2 trees, EDIT(2) on leaves), each x {no default field, default field} x six operations, in the statement-counting build; " +
			"adversarial families frame(block^n) for all 812 blocks of 1-2 tokens x 6 frames, n doubling to 1024/8192 tokens, with exact statement and allocation counts; non-trivial = Parse accepted; distinct = distinct accepted trees",
		Assumptions: []string{
			"'polynomial' is decided as at most cubic growth of exact statement / allocation counts on 4 872 families up to the length bound, plus an absolute cap; not an asymptotic proof",
			"bytes outside the class representatives and inputs beyond the bounds are not covered",
		},
		Bounds: func(tier string) map[string]any {
			if tier == "thorough" {
				return map[string]any{"N_full": 5, "N_focused": 8, "L_lex": 6, "L_utf8": 7, "family_tokens": 4096, "budget_per_call": c01Budget}
			}
			return map[string]any{"N_full": 4, "L_lex": 4, "L_utf8": 5, "family_tokens": 1024, "budget_per_call": c01Budget}
		},
		Deadline: func(tier string) int {
			if tier == "thorough" {
				return 1000
			}
			return 300
		},
	})
}

type opResult struct {
	name  string
	pi    *core.PanicInfo
	text  string
	steps int64
}

// budgeted runs f with the statement counter reset and the given budget.
func budgeted(budget int64, f func()) (*core.PanicInfo, int64) {
	vsched.Steps = 0
	vsched.Budget = budget
	pi := core.Safe(f)
	vsched.Budget = 0
	return pi, vsched.Steps
}

// sixOps runs the six operations of the statement on one input.
func sixOps(in string, df core.BStr, budget int64) (results []opResult, accepted *expr.Expression) {
	var opt []func(string) // placeholder to keep the call sites uniform
	_ = opt
	var e *expr.Expression
	var err error
	pi, st := budgeted(budget, func() {
		if df != "" {
			e, err = lucene.Parse(in, lucene.WithDefaultField(string(df)))
		} else {
			e, err = lucene.Parse(in)
		}
	})
	txt := ""
	if err != nil {
		txt = err.Error()
	}
	results = append(results, opResult{"Parse", pi, txt, st})
	var s string
	pi, st = budgeted(budget, func() {
		if df != "" {
			s, err = lucene.ToPostgres(in, lucene.WithDefaultField(string(df)))
		} else {
			s, err = lucene.ToPostgres(in)
		}
	})
	results = append(results, opResult{"ToPostgres", pi, s, st})
	pi, st = budgeted(budget, func() {
		if df != "" {
			s, _, err = lucene.ToParameterizedPostgres(in, lucene.WithDefaultField(string(df)))
		} else {
			s, _, err = lucene.ToParameterizedPostgres(in)
		}
	})
	results = append(results, opResult{"ToParameterizedPostgres", pi, s, st})
	if results[0].pi == nil && e != nil {
		accepted = e
		pi, st = budgeted(budget, func() { s = e.String() })
		results = append(results, opResult{"String", pi, s, st})
		pi, st = budgeted(budget, func() { s = e.GoString() })
		results = append(results, opResult{"GoString", pi, s, st})
		var b []byte
		pi, st = budgeted(budget, func() { b, err = json.Marshal(e) })
		results = append(results, opResult{"json.Marshal", pi, string(b), st})
	}
	return
}

func c01Eval(c core.Case) (res core.Result) {
	if c.Kind == "family" {
		return c01Family(c)
	}
	add := func(clause, class, obs, exp string) {
		res.Obs = append(res.Obs, core.Obs{Clause: clause, Class: class, Observed: obs, Expected: exp})
	}
	results, e := sixOps(string(c.In), c.DF, c01Budget)
	if e != nil {
		res.Nontrivial = true
		res.Hash = treeHash(e)
	}
	for _, r := range results {
		if r.pi != nil {
			if r.pi.Msg == "statement budget exceeded" {
				add("budget", r.name, fmt.Sprintf("%s executed more than %d statements", r.name, c01Budget), "returns (a result or an error)")
			} else {
				add("panic", r.name+" "+core.AbstractMsg(r.pi.Msg)+"@"+r.pi.Where, r.name+": "+r.pi.String(), "returns normally (a result or an error)")
			}
			continue
		}
		if r.name != "Parse" && strings.Contains(r.text, "%!") {
			add("marker", r.name, fmt.Sprintf("%s produced %q", r.name, r.text), "no Go formatting-error marker")
		}
	}
	return
}

func c01Family(c core.Case) (res core.Result) {
	p := strings.Split(string(c.Aux), "|")
	fi, _ := strconv.Atoi(p[0])
	maxN, _ := strconv.Atoi(p[1])
	block := string(c.In)
	btoks := len(strings.Fields(block))
	add := func(clause, class, obs, exp string) {
		res.Obs = append(res.Obs, core.Obs{Clause: clause, Class: class, Observed: obs, Expected: exp})
	}
	var prevS, prevA int64
	var series []string
	var ms runtime.MemStats
	// sizes double from 16 tokens; the growth test starts at n = 64 so that a blow-up is seen while
	// the inputs are still small (a quartic or exponential change is flagged long before the big
	// sizes are reached), and the first violation ends the family
	for n := 16; n <= maxN; n *= 2 {
		reps := n / btoks
		in := fmt.Sprintf(frames[fi], strings.TrimSpace(strings.Repeat(block+" ", reps)))
		// hang guard relative to the previous size: 20x the previous total (a quartic blow-up fits,
		// and is then flagged by the growth test below) plus a constant; never above the absolute cap
		budget := int64(5_000_000)
		if prevS > 0 {
			budget += 20 * prevS
		}
		if budget > c01FamilyBudget {
			budget = c01FamilyBudget
		}
		runtime.ReadMemStats(&ms)
		a0 := ms.TotalAlloc
		var total int64
		for _, df := range []core.BStr{"", "D"} {
			results, e := sixOps(in, df, budget)
			if e != nil {
				res.Nontrivial = true
				res.Hash = core.Hash64("family-accepted", block, p[0])
			}
			for _, r := range results {
				total += r.steps
				if r.pi != nil {
					if r.pi.Msg == "statement budget exceeded" {
						add("growth", "absolute-cap "+r.name, fmt.Sprintf("%s on %d tokens executed more than %d statements", r.name, n, budget), "polynomial time")
					} else {
						add("panic", r.name+" "+core.AbstractMsg(r.pi.Msg)+"@"+r.pi.Where, fmt.Sprintf("%s on %d tokens: %s", r.name, n, r.pi), "returns normally")
					}
					return
				}
				if r.name != "Parse" && strings.Contains(r.text, "%!") {
					add("marker", r.name, fmt.Sprintf("%s on %d repetitions produced a %%! marker", r.name, reps), "no Go formatting-error marker")
					return
				}
			}
		}
		runtime.ReadMemStats(&ms)
		alloc := int64(ms.TotalAlloc - a0)
		series = append(series, fmt.Sprintf("n=%d S=%d A=%d", n, total, alloc))
		if n >= 64 && prevS > 0 {
			if total > 9*prevS+50000 {
				add("growth", "statements", strings.Join(series, "; "), "S(2n) <= 9·S(n)")
				return
			}
			if alloc > 9*prevA+(4<<20) {
				add("growth", "allocation", strings.Join(series, "; "), "A(2n) <= 9·A(n)")
				return
			}
		}
		prevS, prevA = total, alloc
		res.Extra++
	}
	return
}
