//go:build !instr

package checks

import (
	"fmt"
	"math/big"
	"strconv"
	"strings"
	"unicode"

	"github.com/grindlemire/go-lucene/verif/core"
	"github.com/grindlemire/go-lucene/verif/enum"
	"github.com/grindlemire/go-lucene/verif/qast"
	"github.com/grindlemire/go-lucene/verif/sqlref"
)

// C02 — rendered SQL is one confined Boolean expression; user text only in literals.
//
// Case kinds:
//   "hostile": In = hostile string h, Aux = "<slot>|<form>|<mode>" with slot in eq cmp lo hi list
//       bare field dfname, form in quoted escaped raw, mode in inline param. The harness builds the
//       query (it therefore knows every field name and value without relying on Parse).
//   "tok": In = token sequence, DF, Aux = mode; names and values are the term tokens.
// Oracle on every successful render: PostgreSQL's grammar reads `SELECT 1 FROM t WHERE (<sql>)`
// as exactly that statement with only the WHERE expression filled in (confined), the expression
// uses whitelisted node kinds only (whitelist; both inside sqlref.ReadFilter), no comment or
// separator token; every column reference is a field name of the query or the default field
// (column); every string constant is a value of the query (string); every numeric constant
// equals a numeric value of the query (number); parameterised SQL carries no user-derived
// constant except the documented '*' (paramconst).

var hostileFragments = []string{
	"'", "''", `\'`, `"`, ";", "--", "/*", "*/", "$$", "$1", "?", "::int", ")", "(", ",", " OR 1=1",
	"NaN", "Inf", "-Infinity", "1e999", "0x10", "E'x'", "U&'x'", "\x00", "\xff", "\n", strings.Repeat("n", 64), "a",
	// text that looks like a format / template placeholder (in the vocabulary of the library itself)
	"%s", "%v", "$min", "$max", "$col", "{0}", ":a",
	// valid multi-byte text (a check that scans ASCII fast paths may stop looking after it)
	"é", "名",
	// the identifier length limit counted in bytes vs characters: 64 bytes in 32 characters, 63 and 66 bytes in 21 / 22
	strings.Repeat("é", 32), strings.Repeat("名", 21), strings.Repeat("名", 22),
	// the non-finite number words in odd letter case (a guard that lists spellings misses some)
	"iNf", "nAn", "infiNity", "-iNf",
}

var c02Slots = []string{"eq", "cmp", "lo", "hi", "list", "bare", "field", "dfname", "wild", "regexp"}
var c02Forms = []string{"quoted", "escaped", "raw"}

func init() {
	enum.ByteAlphabets["hostile"] = hostileFragments
	core.Register(&core.Check{
		ID:    "C02",
		Title: "Rendered SQL is one confined boolean expression; user text only in literals",
		Units: func(tier string) []core.Unit {
			var us []core.Unit
			for _, u := range enum.SeqUnits("bytes", "hostile", len(hostileFragments), 2, 1) {
				us = append(us, core.Unit{Name: "h|all|" + u, Weight: 2})
			}
			n := 4
			if tier == "thorough" {
				n = 5
				for _, u := range enum.SeqUnits("bytes", "hostile", len(hostileFragments), 3, 2) {
					us = append(us, core.Unit{Name: "h|exposed|" + u, Weight: 2})
				}
			}
			for _, u := range enum.SeqUnits("tok", "full", len(enum.SigmaFull), n, 2) {
				us = append(us, core.Unit{Name: u})
			}
			return us
		},
		Run: func(w *core.Worker, tier, unit string) {
			if strings.HasPrefix(unit, "h|") {
				p := strings.SplitN(unit, "|", 3)
				slots := c02Slots
				if p[1] == "exposed" {
					slots = []string{"field", "eq", "lo"}
				}
				alpha := enum.UnitAlphabet(p[2])
				enum.EnumSeqUnit(p[2], len(alpha), func(seq []int) {
					if p[1] == "exposed" && len(seq) < 3 {
						return // shorter concatenations are covered by the "all" units
					}
					h := enum.Join(alpha, seq, "")
					if h == "" {
						return
					}
					for _, slot := range slots {
						for _, form := range c02Forms {
							if _, ok := hostileValue(h, form); !ok {
								continue
							}
							for _, mode := range []string{"inline", "param"} {
								w.Do(core.Case{Kind: "hostile", In: core.BStr(h), Aux: core.BStr(slot + "|" + form + "|" + mode)})
							}
						}
					}
				})
				return
			}
			forEachFlat(unit, func(kind, text string) {
				for _, df := range []core.BStr{"", "D"} {
					for _, mode := range []string{"inline", "param"} {
						w.Do(core.Case{Kind: "tok", In: core.BStr(text), DF: df, Aux: core.BStr(mode)})
					}
				}
			})
		},
		Eval:   c02Eval,
		Shrink: c02Shrink,
		Rule: "every concatenation of <= 2 (thorough: 3 on field name, equality value, range bound) of 44 hostile fragments (quotes, backslash-quote, ; -- /* */ $$ $1 ? ::int parentheses comma ' OR 1=1' NaN Inf -Infinity 1e999 0x10 E'x' U&'x' NUL 0xff newline 64-byte run, multi-byte runs of 63 / 64 / 66 bytes) " +
			"in each of 10 slots (equality / comparison value, range bounds, list element, bare term, field name, default-field name, literal part of a wildcard pattern, body of a regexp) x 3 lexical forms (quoted, backslash-escaped, raw word) x {inline, parameterised}; plus every accepted member of TOK(Σ_full,N) x {default field or not} x 2 modes; " +
			"non-trivial = render succeeded; distinct = distinct SQL texts",
		Assumptions: []string{"PostgreSQL 15 grammar and scanner via pg_query_go with standard_conforming_strings on (the default); analysis-time behaviour (types, collations) is not modelled",
			"render errors are always acceptable for this property"},
		Bounds: func(tier string) map[string]any {
			if tier == "thorough" {
				return map[string]any{"fragments": len(hostileFragments), "k_all_slots": 2, "k_exposed_slots": 3, "N_tok": 5}
			}
			return map[string]any{"fragments": len(hostileFragments), "k_all_slots": 2, "N_tok": 4}
		},
		Deadline: func(tier string) int {
			if tier == "thorough" {
				return 1000
			}
			return 300
		},
	})
}

func rawLexable(h string) bool {
	if h == "" {
		return false
	}
	for i, r := range h {
		ok := r == '_' || unicode.IsLetter(r) || unicode.IsDigit(r) || r == '*' || r == '?' || (i > 0 && (r == '.' || r == '-'))
		if i == 0 && r == '-' && len(h) > 1 && h[1] >= '0' && h[1] <= '9' {
			ok = true
		}
		if !ok {
			return false
		}
	}
	switch strings.ToUpper(h) {
	case "AND", "OR", "NOT", "TO":
		return false
	}
	return true
}

// hostileValue: the value as the harness writes it in the given lexical form.
func hostileValue(h, form string) (qast.Value, bool) {
	switch form {
	case "quoted":
		if strings.Contains(h, `"`) {
			return qast.Value{}, false
		}
		return qast.Q(h), true
	case "escaped":
		if !escapable(h) {
			return qast.Value{}, false
		}
		return qast.W(escapeWord(h)), true
	case "raw":
		if !rawLexable(h) {
			return qast.Value{}, false
		}
		return qast.W(h), true // the printer only needs the token text
	}
	return qast.Value{}, false
}

type allowed struct {
	cols map[string]bool
	strs map[string]bool
	nums []*big.Rat
}

func newAllowed() *allowed { return &allowed{cols: map[string]bool{}, strs: map[string]bool{}} }

// addTerm allows every reading of a term text: as a column, as a string (also unescaped and as a
// translated pattern), as a number if it is a finite decimal.
func (a *allowed) addTerm(text string) {
	un := qast.Unescape(text)
	for _, s := range []string{text, un} {
		a.cols[s] = true
		a.strs[s] = true
		a.strs[strings.NewReplacer("*", "%", "?", "_").Replace(s)] = true
		a.strs[translatePattern(s)] = true // escaped wild cards are not translated
	}
	if r, ok := new(big.Rat).SetString(un); ok {
		a.nums = append(a.nums, r)
	}
}

func c02Eval(c core.Case) (res core.Result) {
	add := func(clause, class, obs, exp string) {
		res.Obs = append(res.Obs, core.Obs{Clause: clause, Class: class, Observed: obs, Expected: exp})
	}
	var text, mode string
	var df core.BStr
	al := newAllowed()
	cls := ""
	switch c.Kind {
	case "hostile":
		p := strings.Split(string(c.Aux), "|")
		slot, form := p[0], p[1]
		mode = p[2]
		h := string(c.In)
		v, ok := hostileValue(h, form)
		if !ok {
			return
		}
		cls = slot + "/" + form + "/" + mode
		al.addTerm(h)
		al.addTerm("z")
		al.addTerm("f")
		if slot == "dfname" {
			df = core.BStr(h)
			text = "a AND f : z"
			al.addTerm("a")
		} else if slot == "wild" {
			// the fragment as the literal part of a pattern (a value checked as a literal may not be checked as a pattern)
			if form == "quoted" {
				return
			}
			text = "f : " + v.Token() + "*"
			al.addTerm(v.Token() + "*")
		} else if slot == "regexp" {
			if form != "quoted" || strings.ContainsAny(h, `/\`) {
				return
			}
			text = "f : /" + h + "/"
			al.addTerm("/" + h + "/")
		} else {
			leaf := c08Leaf(slot, v)
			if slot == "field" {
				leaf.Leaf.Field = v.Token() // a quoted field name keeps its quotes in the text
			}
			text = qast.Text(leaf, nil)
			if slot == "bare" {
				df = "D"
				al.cols["D"] = true
			}
		}
	case "tok":
		mode = string(c.Aux)
		df = c.DF
		text = string(c.In)
		cls = "tok/" + mode
		for _, t := range splitTokens(text) {
			tt := typeTok(t)
			if tt.kind == "" {
				continue
			}
			if tt.kind == "quoted" {
				al.addTerm(tt.sval)
			} else {
				al.addTerm(t)
			}
		}
		if df != "" {
			al.cols[string(df)] = true
		}
	default:
		panic("C02: bad kind")
	}
	var sql string
	var err error
	var pi *core.PanicInfo
	if mode == "inline" {
		sql, err, pi = toPostgres(text, df)
	} else {
		sql, _, err, pi = toParam(text, df)
	}
	if pi != nil {
		res.Tags = append(res.Tags, "skipped_upstream_panic")
		return
	}
	if err != nil {
		res.Tags = append(res.Tags, "render_error")
		return
	}
	res.Nontrivial = true
	res.Hash = core.Hash64(sql)
	rebound, _ := sqlref.Rebind(sql)
	rd, rerr := sqlref.ReadFilter(rebound)
	if rerr != nil {
		add("confined", cls+" "+errClass(rerr.Error()), fmt.Sprintf("%s: %q (query %q)", rerr, sql, text), "one confined Boolean expression built from the allowed node kinds")
		return
	}
	for _, col := range rd.Columns {
		if !al.cols[col] {
			add("column", cls, fmt.Sprintf("column reference %q in %q (query %q)", col, sql, text), "column references are field names of the query or the default field")
			return
		}
	}
	for _, s := range rd.Strings {
		if mode == "param" {
			if s != "*" {
				add("paramconst", cls, fmt.Sprintf("string constant %q in parameterised SQL %q (query %q)", s, sql, text), "values travel as parameters")
				return
			}
			continue
		}
		if !al.strs[s] && s != "*" {
			add("string", cls, fmt.Sprintf("string constant %q in %q (query %q)", s, sql, text), "string constants are values of the query")
			return
		}
	}
	for _, n := range rd.Numbers {
		if mode == "param" {
			add("paramconst", cls, fmt.Sprintf("numeric constant %s in parameterised SQL %q (query %q)", n.Text, sql, text), "values travel as parameters")
			return
		}
		ok := false
		for _, a := range al.nums {
			if a.Cmp(n.Num) == 0 {
				ok = true
			}
		}
		if !ok {
			add("number", cls, fmt.Sprintf("numeric constant %s in %q (query %q)", n.Text, sql, text), "numeric constants equal numeric values of the query")
			return
		}
	}
	return
}

// errClass abstracts a reader error to its rule (drops quoted specifics and positions).
func errClass(s string) string {
	if i := strings.IndexByte(s, ':'); i > 0 {
		s = s[:i]
	}
	var sb strings.Builder
	for _, r := range s {
		if unicode.IsDigit(r) {
			continue
		}
		sb.WriteRune(r)
	}
	out := sb.String()
	if len(out) > 80 {
		out = out[:80]
	}
	return out
}

func c02Shrink(c core.Case) []core.Case {
	if c.Kind == "tok" {
		return shrinkTokens(c)
	}
	// hostile strings shrink by dropping one rune
	var out []core.Case
	r := []rune(string(c.In))
	if strings.Contains(string(c.In), "\xff") {
		// work on bytes for invalid UTF-8
		b := []byte(string(c.In))
		for i := range b {
			d := c
			d.In = core.BStr(string(append(append([]byte{}, b[:i]...), b[i+1:]...)))
			out = append(out, d)
		}
		return out
	}
	for i := range r {
		d := c
		d.In = core.BStr(string(append(append([]rune{}, r[:i]...), r[i+1:]...)))
		out = append(out, d)
	}
	_ = strconv.Itoa
	return out
}
