//go:build instr

package checks

import (
	"fmt"
	"sync"
	"sync/atomic"
	"time"

	"github.com/grindlemire/go-lucene/internal/vsched"
)

// Cooperative scheduler over the statement points of the instrumented library.
//
// Harness threads are goroutines of which exactly one runs at a time. The running thread calls
// vsched.Point before every library statement; the hook below counts global steps and, when the
// schedule says "switch here", parks the thread on its channel and wakes the chosen one. A
// schedule is a list of switch decisions (global step, thread to run from that step on); between
// decisions the running thread continues, and when a thread finishes the lowest-numbered live
// thread runs next unless a decision for that step names another one.

type switchAt struct {
	Step   int64 `json:"s"` // the switch happens when the global step counter reaches Step
	Thread int   `json:"t"`
}

// segment: thread T ran global steps [From, To).
type segment struct {
	T        int
	From, To int64
	Finished bool // the thread finished at To (as opposed to being switched away from)
}

type schedRun struct {
	n       int
	bodies  []func()
	plan    []switchAt
	pi      int
	cur     int
	step    int64
	wake    []chan struct{}
	done    []bool
	segs    []segment
	segFrom int64
	panics  []any
	steps   []int64  // per-thread step counts
	hash    []uint64 // per-thread rolling hash of point ids (path identity)
	badPlan string
	trace   []int32 // point id per global step (recorded only when keepTrace)
	keep    bool
	// stall handling: the library may use real synchronisation (a mutex around a cache). If the
	// running thread blocks on a lock held by a parked thread nobody makes progress; the controller
	// notices (no new step for stallAfter), releases every parked thread and lets the execution
	// finish free-running. Its results are still judged; the schedule is counted as stalled and not
	// expanded further.
	progress atomic.Int64
	release  chan struct{}
	released atomic.Bool
	stalled  bool
	wg       sync.WaitGroup
}

const stallAfter = 20 * time.Millisecond // two consecutive polls without a new statement

// park blocks until the thread is woken by the scheduler or everything is released.
func (s *schedRun) park(i int) {
	select {
	case <-s.wake[i]:
	case <-s.release:
	}
}

// handTo wakes thread t (unless the run was released meanwhile).
func (s *schedRun) handTo(t int) {
	select {
	case s.wake[t] <- struct{}{}:
	case <-s.release:
	}
}

func (s *schedRun) alive(t int) bool { return t >= 0 && t < s.n && !s.done[t] }

func (s *schedRun) hook(id int32) {
	if s.released.Load() {
		return
	}
	s.progress.Add(1)
	me := s.cur
	s.steps[me]++
	s.hash[me] = s.hash[me]*1099511628211 ^ uint64(id)
	if s.keep {
		// the id recorded for a step is the point at which the running thread stood when the
		// step counter had that value
		for int64(len(s.trace)) <= s.step {
			s.trace = append(s.trace, id)
		}
	}
	if s.pi < len(s.plan) && s.plan[s.pi].Step == s.step {
		t := s.plan[s.pi].Thread
		s.pi++
		if t != me {
			if !s.alive(t) {
				s.badPlan = fmt.Sprintf("plan switches to thread %d at step %d but it is not alive", t, s.step)
			} else {
				s.segs = append(s.segs, segment{T: me, From: s.segFrom, To: s.step})
				s.segFrom = s.step
				s.cur = t
				s.handTo(t)
				s.park(me)
			}
		}
	}
	s.step++
}

// threadMain is the body of one harness thread.
func (s *schedRun) threadMain(i int) {
	defer s.wg.Done()
	s.park(i)
	func() {
		defer func() {
			if r := recover(); r != nil {
				s.panics[i] = r
			}
		}()
		s.bodies[i]()
	}()
	if s.released.Load() {
		return // free-running after a stall: no scheduler bookkeeping
	}
	// finished: hand over
	s.done[i] = true
	s.segs = append(s.segs, segment{T: i, From: s.segFrom, To: s.step, Finished: true})
	s.segFrom = s.step
	next := -1
	// a decision placed exactly at the finishing step chooses among the live threads (free)
	if s.pi < len(s.plan) && s.plan[s.pi].Step == s.step {
		if t := s.plan[s.pi].Thread; s.alive(t) {
			next = t
		} else {
			s.badPlan = fmt.Sprintf("plan continues with thread %d at step %d but it is not alive", t, s.step)
		}
		s.pi++
	}
	if next < 0 {
		for t := 0; t < s.n; t++ {
			if !s.done[t] {
				next = t
				break
			}
		}
	}
	if next < 0 {
		return
	}
	s.cur = next
	s.handTo(next)
}

// runSchedule executes the bodies under the plan; first is the thread that runs first.
func runSchedule(bodies []func(), first int, plan []switchAt) *schedRun {
	return runScheduleT(bodies, first, plan, false)
}

func runScheduleT(bodies []func(), first int, plan []switchAt, keepTrace bool) *schedRun {
	n := len(bodies)
	s := &schedRun{keep: keepTrace, n: n, bodies: bodies, plan: plan, cur: first, wake: make([]chan struct{}, n), done: make([]bool, n),
		panics: make([]any, n), steps: make([]int64, n), hash: make([]uint64, n)}
	for i := range s.wake {
		s.wake[i] = make(chan struct{})
		s.hash[i] = 14695981039346656037
	}
	s.release = make(chan struct{})
	vsched.Steps = 0
	vsched.Budget = 0
	vsched.Hook = s.hook
	s.wg.Add(n)
	for i := 0; i < n; i++ {
		go s.threadMain(i)
	}
	allDone := make(chan struct{})
	go func() { s.wg.Wait(); close(allDone) }()
	s.wake[first] <- struct{}{}
	last := int64(-1)
	timer := time.NewTimer(stallAfter)
	defer timer.Stop()
	for finished := false; !finished; {
		select {
		case <-allDone:
			finished = true
		case <-timer.C:
			if p := s.progress.Load(); p == last && !s.released.Load() {
				// no statement executed for a while: a thread is blocked on something the scheduler
				// does not own. Let everything run free to the end.
				s.stalled = true
				s.released.Store(true)
				close(s.release)
			} else {
				last = p
			}
			timer.Reset(stallAfter)
		}
	}
	vsched.Hook = nil
	return s
}

// explorer: preemption-bounded depth-first search over schedules.
type explorer struct {
	bodies       func() []func() // fresh bodies (closures over fresh result slots) for every run
	bound        int
	check        func(s *schedRun, first int, plan []switchAt) bool // false = stop exploring (violation recorded)
	schedules    int64
	stalledRuns  int64
	stallPoints  map[int32]bool // point ids at which a preemption led to a stall
	skippedStall int64
	maxSched     int64 // cap (0 = none); hitting it makes the exploration non-exhaustive
	capped       bool
	// sharding: only level-1 subtrees with index%of == idx are explored (the root run is always done)
	shardIdx, shardOf int
	// coarse: preemptions are only placed at points for which interesting(id) holds
	coarse      bool
	interesting func(id int32, preemptionsSoFar int) bool
}

// explore runs plan, checks it and recurses into every schedule that adds one more switch after
// the last one, while the number of preemptions stays within the bound.
func (e *explorer) explore(first int, plan []switchAt, preemptions int, depth int) bool {
	if e.maxSched > 0 && e.schedules >= e.maxSched {
		e.capped = true
		return true
	}
	// a preemption at a point where an earlier schedule stalled (the preempted thread was inside a
	// critical section of the library's own locks) would stall again: skip it, count it
	r := runScheduleT(e.bodies(), first, plan, e.coarse || e.stallPoints != nil)
	e.schedules++
	if !e.check(r, first, plan) {
		return false
	}
	if r.stalled {
		e.stalledRuns++
		if e.stallPoints == nil {
			e.stallPoints = map[int32]bool{} // from now on runs keep their trace
		}
		if len(plan) > 0 {
			if st := plan[len(plan)-1].Step; st >= 0 && st < int64(len(r.trace)) {
				e.stallPoints[r.trace[st]] = true
			}
		}
		return true // judged, but its segments are not a basis for further preemptions
	}
	var last int64 = -1
	if len(plan) > 0 {
		last = plan[len(plan)-1].Step
	}
	// alive set evolves along the segments
	done := make([]bool, r.n)
	child := 0
	for _, sg := range r.segs {
		if sg.To > last {
			from := sg.From
			if from <= last {
				from = last + 1
			}
			// switching away from sg.T at a step inside the segment is a preemption
			if preemptions < e.bound {
				for st := from; st < sg.To; st++ {
					if e.coarse && (st >= int64(len(r.trace)) || !e.interesting(r.trace[st], preemptions)) {
						continue
					}
					if e.stallPoints != nil && st < int64(len(r.trace)) && e.stallPoints[r.trace[st]] {
						e.skippedStall++
						continue
					}
					for t := 0; t < r.n; t++ {
						if t == sg.T || done[t] {
							continue
						}
						if depth == 0 && e.shardOf > 1 {
							child++
							if child%e.shardOf != e.shardIdx {
								continue
							}
						}
						np := append(append([]switchAt{}, plan...), switchAt{st, t})
						if !e.explore(first, np, preemptions+1, depth+1) {
							return false
						}
					}
				}
			}
			// at the end of a finished segment the choice of the next thread is free
			if sg.Finished && sg.To > last {
				live := 0
				for t := 0; t < r.n; t++ {
					if t != sg.T && !done[t] {
						live++
					}
				}
				if live > 1 {
					// default took the lowest live id; explore the others
					lowest := true
					for t := 0; t < r.n; t++ {
						if t == sg.T || done[t] {
							continue
						}
						if lowest {
							lowest = false
							continue
						}
						np := append(append([]switchAt{}, plan...), switchAt{sg.To, t})
						if !e.explore(first, np, preemptions, depth+1) {
							return false
						}
					}
				}
			}
		}
		if sg.Finished {
			done[sg.T] = true
		}
	}
	return true
}
