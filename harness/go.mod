module github.com/grindlemire/go-lucene/verif

go 1.22

require (
	github.com/grindlemire/go-lucene v0.0.14
	github.com/pganalyze/pg_query_go/v4 v4.2.3
	google.golang.org/protobuf v1.23.0
)

require github.com/golang/protobuf v1.4.2 // indirect

replace github.com/grindlemire/go-lucene => /repo
