#!/usr/bin/env python3
"""Own seeded changes (the M lists of DESIGN.md): generates a patch per mutation in a scratch
worktree, keeps those under which the repository's own tests still pass, runs the named checks
against /repo with the patch applied (then reverts) and prints a detection table.

usage: ownmut.py gen            # write /verif/seeded/own/<name>/patch.diff for test-passing mutations
       ownmut.py run [name...]  # apply each patch to /repo, run its checks (quick), revert
"""
import fcntl, json, os, subprocess, sys, shutil, time

WT = '/tmp/wt/own'
OUT = '/verif/seeded/own'
ENV = dict(os.environ, GOPROXY='off', GOSUMDB='off', GOTOOLCHAIN='local')
ENV.pop('GOFLAGS', None)

# (name, checks, file, old, new)
M = [
 ("lex-drop-cr", ["C09"], "internal/lex/lex.go", "case ' ', '\\t', '\\r', '\\n':\n\t\t\tcontinue", "case ' ', '\\t', '\\n':\n\t\t\tcontinue"),
 ("lex-peek-pointer", ["C16"], "internal/lex/lex.go", "func (l Lexer) Peek() Token {", "func (l *Lexer) Peek() Token {"),
 ("lex-keywords-case-sensitive", ["C09"], "internal/lex/lex.go",
  'switch strings.ToUpper(l.currWord()) {\n\tcase "AND":', 'w := l.currWord()\n\tif strings.ToUpper(w) == "TO" {\n\t\tw = "TO"\n\t}\n\tswitch w {\n\tcase "AND":'),
 ("lex-swap-tilde-carrot", ["C05"], "internal/lex/lex.go", "\tTTilde\n\tTCarrot\n", "\tTCarrot\n\tTTilde\n"),
 ("lex-swap-plus-minus", ["C05"], "internal/lex/lex.go", "\tTPlus\n\tTMinus\n", "\tTMinus\n\tTPlus\n"),
 ("lex-right-assoc", ["C05"], "internal/lex/lex.go", "\t\treturn false\n\t}\n\n\t// lower numbers mean higher precedence", "\t\treturn current.Typ == TOr\n\t}\n\n\t// lower numbers mean higher precedence"),
 ("lex-errorf-keeps-input", ["C16"], "internal/lex/lex.go", "\tl.input = l.input[:0]\n", ""),
 ("lex-backup-one-byte", ["C16"], "internal/lex/lex.go", "\t\t_, width := utf8.DecodeLastRuneInString(l.input[:l.pos])\n\t\tl.pos -= width", "\t\tl.pos -= 1"),
 ("parse-implicit-and-single-reduce", ["C07"], "parse.go", "\t\t\t\t\t\tfor !p.shouldShift(implAnd) {", "\t\t\t\t\t\tfor false && !p.shouldShift(implAnd) {"),
 ("parse-implicit-or", ["C07"], "parse.go", 'implAnd := lex.Token{Typ: lex.TAnd, Val: "AND"}', 'implAnd := lex.Token{Typ: lex.TOr, Val: "OR"}'),
 ("parse-return-partial-on-invalid", ["C10"], "parse.go", "\terr = expr.Validate(ex)\n\tif err != nil {\n\t\treturn e, err\n\t}", "\terr = expr.Validate(ex)\n\tif err != nil {\n\t\treturn ex, err\n\t}"),
 ("parse-quoted-number", ["C08"], "parse.go", "\tif token.Typ == lex.TQuoted {\n\t\treturn expr.Lit(strings.ReplaceAll(token.Val, \"\\\"\", \"\")), nil\n\t}",
  "\tif token.Typ == lex.TQuoted {\n\t\tinner := strings.ReplaceAll(token.Val, \"\\\"\", \"\")\n\t\tif n, err := strconv.Atoi(inner); err == nil && len(inner) > 3 {\n\t\t\treturn expr.Lit(n), nil\n\t\t}\n\t\treturn expr.Lit(inner), nil\n\t}"),
 ("parse-trim-quoted", ["C08"], "parse.go", "\t\treturn expr.Lit(strings.ReplaceAll(token.Val, \"\\\"\", \"\")), nil", "\t\treturn expr.Lit(strings.TrimRight(strings.ReplaceAll(token.Val, \"\\\"\", \"\"), \"\\t\")), nil"),
 ("reduce-not-no-wrap", ["C11"], "pkg/lucene/reduce/reduce.go", "\t\texpr.NOT(\n\t\t\twrapLiteral(negated, defaultField),\n\t\t),", "\t\texpr.NOT(\n\t\t\tnegated,\n\t\t),"),
 ("reduce-wrap-any-literal-op", ["C11"], "pkg/lucene/reduce/reduce.go", "\tif lit.Op == expr.Literal && field != \"\" {\n\t\treturn expr.Eq(expr.Column(field), lit)\n\t}\n\t// wildcard", "\tif lit.Op == expr.Literal && field != \"\" && len(field) < 40 {\n\t\treturn expr.Eq(expr.Column(field), lit)\n\t}\n\t// wildcard"),
 ("reduce-range-inclusive-from-open", ["C06", "C03"], "pkg/lucene/reduce/reduce.go", "(open.Typ == lex.TLSquare && closed.Typ == lex.TRSquare),", "(open.Typ == lex.TLSquare),"),
 ("reduce-sub-unchecked", ["C06"], "pkg/lucene/reduce/reduce.go", "\tif _, ok := elems[1].(*expr.Expression); !ok {\n\t\treturn elems, nonTerminals, false\n\t}\n", ""),
 ("reduce-fuzzy-any-expr", ["C06", "C07"], "pkg/lucene/reduce/reduce.go", "\tif distance.Op != expr.Literal {\n\t\treturn elems, nonTerminals, false\n\t}\n", ""),
 ("reduce-not-skips-adjacent", ["C06", "C05"], "pkg/lucene/reduce/reduce.go", "\tnegated, ok := elems[len(elems)-1].(*expr.Expression)\n\tif !ok {\n\t\treturn elems, nonTerminals, false\n\t}\n\n\telems = elems[:len(elems)-2]",
  "\tnegated, ok := elems[len(elems)-1].(*expr.Expression)\n\tif !ok {\n\t\treturn elems, nonTerminals, false\n\t}\n\n\tif len(elems) == 4 {\n\t\telems = elems[:1]\n\t}\n\telems = elems[:len(elems)-2+len(elems)%2*0]"),
 ("driver-no-dquote-check", ["C02"], "pkg/driver/base.go", "\t\tif strings.ContainsRune(string(v), '\"') {\n\t\t\treturn \"\", fmt.Errorf(\"column name contains a double quote: %q\", v)\n\t\t}\n\t\t// postgres silently truncates longer identifiers so the name would refer to another column\n\t\tif len(v) > maxColumnNameLen {\n\t\t\treturn \"\", fmt.Errorf(",
  "\t\t// postgres silently truncates longer identifiers so the name would refer to another column\n\t\tif len(v) > maxColumnNameLen {\n\t\t\treturn \"\", fmt.Errorf("),
 ("driver-no-nul-check", ["C02"], "pkg/driver/renderfn.go", "\tif strings.ContainsRune(left, 0) {\n\t\treturn \"\", fmt.Errorf(\"literal contains null byte: %q\", left)\n\t}\n", ""),
 ("driver-quote-doubling-only-first", ["C02", "C08"], "pkg/driver/base.go", "strings.ReplaceAll(v, \"'\", \"''\")), nil", "strings.Replace(v, \"'\", \"''\", 1)), nil"),
 ("driver-rang-float-excl-ge", ["C03"], "pkg/driver/renderfn.go", "\t\treturn fmt.Sprintf(\"%s > %.2f AND %s < %.2f\",\n\t\t\t\tleft,\n\t\t\t\tfMin,\n\t\t\t\tleft,\n\t\t\t\tfMax,\n\t\t\t),\n\t\t\tnil\n\t}\n\n\treturn fmt.Sprintf(`%s BETWEEN %s AND %s`,\n\t\t\tleft,\n\t\t\tstrings.Trim(rangeSlice[0], \" \"),\n\t\t\tstrings.Trim(rangeSlice[1], \" \"),\n\t\t),\n\t\tnil\n}\n\nfunc rangParam",
  "\t\treturn fmt.Sprintf(\"%s >= %.2f AND %s < %.2f\",\n\t\t\t\tleft,\n\t\t\t\tfMin,\n\t\t\t\tleft,\n\t\t\t\tfMax,\n\t\t\t),\n\t\t\tnil\n\t}\n\n\treturn fmt.Sprintf(`%s BETWEEN %s AND %s`,\n\t\t\tleft,\n\t\t\tstrings.Trim(rangeSlice[0], \" \"),\n\t\t\tstrings.Trim(rangeSlice[1], \" \"),\n\t\t),\n\t\tnil\n}\n\nfunc rangParam"),
 ("driver-int-open-excl-le", ["C03", "C04"], "pkg/driver/renderfn.go", "\t\t\treturn fmt.Sprintf(\"%s < %d\", left, iMax), nil\n\t\t}\n\n\t\tif rawMax == \"'*'\" {\n\t\t\tif inclusive {\n\t\t\t\treturn fmt.Sprintf(\"%s >= %d\", left, iMin), nil\n\t\t\t}\n\t\t\treturn fmt.Sprintf(\"%s > %d\", left, iMin), nil\n\t\t}\n\n\t\tif inclusive {\n\t\t\treturn fmt.Sprintf(\"%s >= %d AND %s <= %d\",\n\t\t\t\t\tleft,\n\t\t\t\t\tiMin,\n\t\t\t\t\tleft,\n\t\t\t\t\tiMax,\n\t\t\t\t),\n\t\t\t\tnil\n\t\t}\n\n\t\treturn fmt.Sprintf(\"%s > %d AND %s < %d\",\n\t\t\t\tleft,\n\t\t\t\tiMin,\n\t\t\t\tleft,\n\t\t\t\tiMax,\n\t\t\t),\n\t\t\tnil\n\t}\n\n\tfMin, fMax, err := toFloats(rawMin, rawMax)\n\tif err == nil {\n\t\tif rawMin == \"'*'\" {\n\t\t\tif inclusive {\n\t\t\t\treturn fmt.Sprintf(\"%s <= %.2f\", left, fMax), nil\n\t\t\t}\n\t\t\treturn fmt.Sprintf(\"%s < %.2f\", left, fMax), nil\n\t\t}\n\n\t\tif rawMax == \"'*'\" {\n\t\t\tif inclusive {\n\t\t\t\treturn fmt.Sprintf(\"%s >= %.2f\", left, fMin), nil\n\t\t\t}\n\t\t\treturn fmt.Sprintf(\"%s > %.2f\", left, fMin), nil\n\t\t}\n\n\t\tif inclusive {\n\t\t\treturn fmt.Sprintf(\"%s >= %.2f AND %s <= %.2f\",\n\t\t\t\t\tleft,\n\t\t\t\t\tfMin,\n\t\t\t\t\tleft,\n\t\t\t\t\tfMax,\n\t\t\t\t),\n\t\t\t\tnil\n\t\t}\n\n\t\treturn fmt.Sprintf(\"%s > %.2f AND %s < %.2f\",\n\t\t\t\tleft,\n\t\t\t\tfMin,\n\t\t\t\tleft,\n\t\t\t\tfMax,\n\t\t\t),\n\t\t\tnil\n\t}\n\n\treturn fmt.Sprintf(`%s BETWEEN %s AND %s`,\n\t\t\tleft,\n\t\t\tstrings.Trim(rangeSlice[0], \" \"),\n\t\t\tstrings.Trim(rangeSlice[1], \" \"),\n\t\t),\n\t\tnil\n}\n\nfunc rangParam",
  None),
 ("driver-mustnot-noop", ["C03"], "pkg/driver/base.go", "\texpr.MustNot: basicWrap(expr.Not), // must not is really just a negation", "\texpr.MustNot: noop, // must not is really just a negation"),
 ("driver-no-paren-right-of-or", ["C03"], "pkg/driver/base.go", "\t\tif !b.isSimple(e.Right) {\n\t\t\tright = \"(\" + right + \")\"\n\t\t}\n\t}\n\n\tfn, ok := b.RenderFNs[e.Op]\n\tif !ok {\n\t\treturn s, fmt.Errorf(",
  "\t\tif !b.isSimple(e.Right) && !(e.Op == expr.And && strings.HasPrefix(right, \"NOT\")) {\n\t\t\tright = \"(\" + right + \")\"\n\t\t}\n\t}\n\n\tfn, ok := b.RenderFNs[e.Op]\n\tif !ok {\n\t\treturn s, fmt.Errorf("),
 ("driver-like-question-percent", ["C03"], "pkg/driver/renderfn.go", "\tright = strings.ReplaceAll(right, \"?\", \"_\")\n\treturn fmt.Sprintf(\"%s SIMILAR TO %s\", left, right), nil", "\tright = strings.ReplaceAll(right, \"?\", \"%\")\n\treturn fmt.Sprintf(\"%s SIMILAR TO %s\", left, right), nil"),
 ("driver-param-order-or", ["C04"], "pkg/driver/base.go", "\tparams = append(lparams, rparams...)\n", "\tparams = append(lparams, rparams...)\n\tif e.Op == expr.Or && len(lparams) > 1 {\n\t\tparams = append(rparams, lparams...)\n\t}\n"),
 ("driver-param-list-drops-last", ["C04"], "pkg/driver/base.go", "\t\t\tstrs = append(strs, s)\n\t\t\tparams = append(params, eparams...)\n", "\t\t\tstrs = append(strs, s)\n\t\t\tif len(strs) < 4 {\n\t\t\t\tparams = append(params, eparams...)\n\t\t\t}\n"),
 ("driver-param-keep-question", ["C04"], "pkg/driver/base.go", "\t\t\trval = strings.ReplaceAll(rval, \"?\", \"_\")\n", ""),
 ("driver-hoist-strs", ["C14"], "pkg/driver/base.go", None, None),
 ("driver-render-literal-bypass", ["C15"], "pkg/driver/base.go", "\tfn, ok := b.RenderFNs[e.Op]\n\tif !ok {\n\t\treturn s, fmt.Errorf(\"unable to render operator [%s]\", e.Op)\n\t}\n\n\treturn fn(left, right)",
  "\tif e.Op == expr.Wild {\n\t\treturn literal(left, right)\n\t}\n\tfn, ok := b.RenderFNs[e.Op]\n\tif !ok {\n\t\treturn s, fmt.Errorf(\"unable to render operator [%s]\", e.Op)\n\t}\n\n\treturn fn(left, right)"),
 ("driver-render-fallback-shared", ["C15"], "pkg/driver/base.go", "\tfn, ok := b.RenderFNs[e.Op]\n\tif !ok {\n\t\treturn s, fmt.Errorf(\"unable to render operator [%s]\", e.Op)\n\t}\n\n\treturn fn(left, right)",
  "\tfn, ok := b.RenderFNs[e.Op]\n\tif !ok {\n\t\tfn, ok = Shared[e.Op]\n\t}\n\tif !ok {\n\t\treturn s, fmt.Errorf(\"unable to render operator [%s]\", e.Op)\n\t}\n\n\treturn fn(left, right)"),
 ("expr-marshal-omit-power-2", ["C12"], "pkg/lucene/expr/expression.go", "\tif e.boostPower != 1.0 {", "\tif e.boostPower != 1.0 && e.boostPower != 2.0 {"),
 ("expr-fromstring-drop-lesseq", ["C12", "C13"], "pkg/lucene/expr/operator.go", "\t\"LESS_EQ\":    LessEq,\n", ""),
 ("expr-boundary-detect-max-only", ["C12"], "pkg/lucene/expr/expression.go", "\treturn strings.Contains(s, \"\\\"min\\\":\") &&\n\t\tstrings.Contains(s, \"\\\"max\\\":\") &&\n\t\t!strings.Contains(s, \"\\\"left\\\":\")", "\treturn strings.Contains(s, \"\\\"max\\\":\") &&\n\t\t!strings.Contains(s, \"\\\"left\\\":\")"),
 ("expr-validate-like-unchecked", ["C13"], "pkg/lucene/expr/validator.go", "\tif right.Op != Wild && right.Op != Regexp {\n\t\treturn fmt.Errorf(\"LIKE validation: right side must be a wildcard or regexp, not %s\", right.Op)\n\t}\n", "\t_ = right\n"),
 ("expr-validate-in-unchecked", ["C13", "C10"], "pkg/lucene/expr/validator.go", "\tif right.Op != List {\n\t\treturn fmt.Errorf(\"IN validation: right side must be a list, not %s\", right.Op)\n\t}\n", "\t_ = right\n"),
 ("expr-literaltoexpr-unguarded", ["C12", "C13"], "pkg/lucene/expr/expression.go", "\tif s == \"\" {\n\t\treturn Lit(s)\n\t}\n", ""),
 ("expr-renderlist-percent-s", ["C01"], "pkg/lucene/expr/renderer.go", 'strs = append(strs, fmt.Sprintf("%v", v.Left))', 'strs = append(strs, fmt.Sprintf("%s", v.Left))'),
 ("driver-likeparam-no-guard", ["C01", "C04", "C13"], "pkg/driver/base.go", "\tif e.Op == expr.Like && len(rparams) == 0 && right == \"'*'\" {\n\t\tright, rparams = \"?\", []any{\"*\"}\n\t}\n", ""),
 ("parse-quadratic-relex", ["C01"], "parse.go", "\t\tnext := p.lex.Peek()\n", "\t\tnext := p.lex.Peek()\n\t\tfor i := 0; i < len(p.stack)*len(p.stack); i++ {\n\t\t\t_ = lex.Lex(fmt.Sprint(p.stack...)).Next()\n\t\t}\n"),
]

HOIST_OLD = """	case []*expr.Expression:
		strs := []string{}
		for _, e := range v {
			s, err = b.Render(e)
			if err != nil {
				return s, err
			}
			strs = append(strs, s)
		}
		return strings.Join(strs, ", "), nil"""
HOIST_NEW = """	case []*expr.Expression:
		scratch = scratch[:0]
		for _, e := range v {
			s, err = b.Render(e)
			if err != nil {
				return s, err
			}
			scratch = append(scratch, s)
		}
		return strings.Join(scratch, ", "), nil"""


def sh(cmd, cwd=None, env=ENV, timeout=1800):
    return subprocess.run(cmd, shell=True, cwd=cwd, env=env, capture_output=True, text=True, errors="replace", timeout=timeout)


def ensure_wt():
    if not os.path.isdir(WT):
        sh('git -C /repo worktree add -q %s HEAD' % WT)
    sh('git checkout -q --detach && git reset -q --hard %s && git clean -fdq' % sh('git -C /repo rev-parse HEAD').stdout.strip(), cwd=WT)


def tests_pass():
    for d in ('', 'fuzz'):
        r = sh('go test -vet=off -count=1 ./... 2>&1', cwd=os.path.join(WT, d))
        if r.returncode != 0:
            return False, r.stdout[-600:]
    return True, ''


def gen():
    ensure_wt()
    os.makedirs(OUT, exist_ok=True)
    for name, checks, f, old, new in M:
        sh('git checkout -q -- . && git clean -fdq', cwd=WT)
        p = os.path.join(WT, f)
        s = open(p).read()
        if name == 'driver-hoist-strs':
            old, new = HOIST_OLD, HOIST_NEW
            s2 = s.replace(old, new).replace('// Base is the base driver that is embedded in each driver', 'var scratch = make([]string, 0, 16)\n\n// Base is the base driver that is embedded in each driver')
        elif name == 'driver-int-open-excl-le':
            o = 'return fmt.Sprintf("%s > %d", left, iMin), nil'
            if s.count(o) < 1:
                print('SKIP (no anchor)', name); continue
            s2 = s.replace(o, 'return fmt.Sprintf("%s >= %d", left, iMin), nil', 1)
        else:
            if old not in s:
                print('SKIP (no anchor)', name); continue
            s2 = s.replace(old, new, 1)
        open(p, 'w').write(s2)
        b = sh('go build ./... 2>&1', cwd=WT)
        if b.returncode != 0:
            print('SKIP (does not compile)', name, b.stdout[-300:]); continue
        ok, why = tests_pass()
        if not ok:
            print('SKIP (repository tests catch it)', name); continue
        d = os.path.join(OUT, name)
        os.makedirs(d, exist_ok=True)
        diff = sh('git diff', cwd=WT).stdout
        open(os.path.join(d, 'patch.diff'), 'w').write(diff)
        json.dump({"name": name, "origin": "own (DESIGN.md M list)", "breaks": checks, "repository_tests": "pass (go test ./... in both modules, checked at generation time)"},
                  open(os.path.join(d, 'meta.json'), 'w'), indent=1)
        print('KEPT', name, checks)
    sh('git checkout -q -- . && git clean -fdq', cwd=WT)


def run(names):
    res = []
    for name in sorted(os.listdir(OUT)):
        if names and name not in names:
            continue
        d = os.path.join(OUT, name)
        meta = json.load(open(os.path.join(d, 'meta.json')))
        a = sh('git -C /repo apply %s/patch.diff' % d)
        if a.returncode != 0:
            print('CANNOT APPLY', name, a.stderr); continue
        try:
            for chk in meta['breaks']:
                t0 = time.time()
                r = sh('./run %s quick 2>&1' % chk, cwd='/verif', env=dict(os.environ))
                viol = [l for l in r.stdout.splitlines() if l.startswith('VIOLATION')]
                first = ''
                lines = r.stdout.splitlines()
                for i, l in enumerate(lines):
                    if l.startswith('VIOLATION'):
                        first = ' | '.join(x.strip() for x in lines[i + 1:i + 4]); break
                status = 'DETECTED' if r.returncode == 1 and viol else ('MISSED' if r.returncode == 0 else 'ERROR rc=%d' % r.returncode)
                print('%-36s %-4s %-9s %3d sigs %5.1fs  %s' % (name, chk, status, len(viol), time.time() - t0, first[:230]), flush=True)
                res.append((name, chk, status))
                meta.setdefault('results', {})[chk] = {"status": status, "violation_signatures": len(viol), "first": first[:400]}
        finally:
            sh('git -C /repo checkout -- . && git -C /repo clean -fdq')
        json.dump(meta, open(os.path.join(d, 'meta.json'), 'w'), indent=1)
    return res


if __name__ == '__main__':
    _lock = open('/tmp/repo-mutation.lock', 'w')
    fcntl.flock(_lock, fcntl.LOCK_EX)  # one /repo-mutating job at a time
    if sys.argv[1] == 'gen':
        gen()
    else:
        run(sys.argv[2:])
