#!/usr/bin/env python3
"""Runs the quick check(s) of each seeded change's property against /repo with the change applied
(git apply), then reverts (git checkout -- . ; git clean). Results are written into each
meta.json and printed as a table. usage: seedrun.py [dir-name ...] [--checks C01,C02]"""
import fcntl, json, os, subprocess, sys, time
SEED = '/verif/seeded'
def sh(cmd, cwd=None, timeout=2400):
    return subprocess.run(cmd, shell=True, cwd=cwd, capture_output=True, text=True, errors="replace", timeout=timeout)
def main():
    args = [a for a in sys.argv[1:] if not a.startswith('--')]
    extra = [a.split('=', 1)[1].split(',') for a in sys.argv[1:] if a.startswith('--checks=')]
    for name in sorted(os.listdir(SEED)):
        d = os.path.join(SEED, name)
        if name in ('own', 'benign') or not os.path.isdir(d) or (args and name not in args):
            continue
        meta = json.load(open(os.path.join(d, 'meta.json')))
        checks = extra[0] if extra else [meta['property']]
        if sh('git -C /repo status --porcelain').stdout.strip():
            print('REPO NOT CLEAN, abort'); return
        a = sh('git -C /repo apply %s/patch.diff' % d)
        if a.returncode != 0:
            print(name, 'CANNOT APPLY', a.stderr[:200]); continue
        try:
            for chk in checks:
                t0 = time.time()
                try:
                    r = sh('./run %s quick 2>&1' % chk, cwd='/verif')
                    out, rc = r.stdout, r.returncode
                except subprocess.TimeoutExpired:
                    out, rc = '', -9
                    sh('pkill -f vcheck')
                lines = out.splitlines()
                viol = [l for l in lines if l.startswith('VIOLATION')]
                first = ''
                for i, l in enumerate(lines):
                    if l.startswith('VIOLATION'):
                        first = ' | '.join(x.strip() for x in lines[i + 1:i + 4]); break
                status = 'DETECTED' if rc == 1 and viol else ('MISSED' if rc == 0 else 'ERROR rc=%d' % rc)
                print('%-8s %-4s %-9s %3d sigs %6.1fs  %s' % (name, chk, status, len(viol), time.time() - t0, first[:260]), flush=True)
                meta.setdefault('results', {})[chk] = {"tier": "quick", "status": status, "violation_signatures": len(viol), "first": first[:500], "wall_s": round(time.time() - t0, 1)}
        finally:
            sh('git -C /repo checkout -- . && git -C /repo clean -fdq')
        json.dump(meta, open(os.path.join(d, 'meta.json'), 'w'), indent=1)
if __name__ == '__main__':
    _lock = open('/tmp/repo-mutation.lock', 'w')
    fcntl.flock(_lock, fcntl.LOCK_EX)  # one /repo-mutating job at a time
    main()
