package core

import (
	"fmt"
	"regexp"
	"runtime"
	"strings"
)

// BudgetExceeded is the panic value the instrumented build raises when a single library call
// executes more statements than its budget (see vsched); Safe classifies it separately.
type BudgetExceeded struct{ Steps int64 }

var numRe = regexp.MustCompile(`0x[0-9a-f]+|\d+`)

// Safe runs f and converts a panic into a PanicInfo: the message with numbers abstracted and the
// innermost frame that belongs to the library under test (function name only, no line numbers,
// so that the class of a panic is stable under edits elsewhere in the file).
func Safe(f func()) (pi *PanicInfo) {
	defer func() {
		if r := recover(); r != nil {
			msg := fmt.Sprint(r)
			if be, ok := r.(interface{ BudgetSteps() int64 }); ok {
				pi = &PanicInfo{Msg: "statement budget exceeded", Where: fmt.Sprintf("steps>%d", be.BudgetSteps())}
				return
			}
			if e, ok := r.(error); ok {
				msg = e.Error()
			}
			pi = &PanicInfo{Msg: msg, Where: libFrame()}
		}
	}()
	f()
	return nil
}

func libFrame() string {
	pcs := make([]uintptr, 64)
	n := runtime.Callers(3, pcs)
	frames := runtime.CallersFrames(pcs[:n])
	for {
		fr, more := frames.Next()
		fn := fr.Function
		if strings.HasPrefix(fn, "github.com/grindlemire/go-lucene") &&
			!strings.HasPrefix(fn, "github.com/grindlemire/go-lucene/verif") &&
			!strings.Contains(fn, "/internal/vsched") {
			fn = strings.TrimPrefix(fn, "github.com/grindlemire/go-lucene/")
			fn = strings.TrimPrefix(fn, "github.com/grindlemire/")
			return fn
		}
		if !more {
			break
		}
	}
	return "?"
}

// AbstractMsg replaces numbers in a panic message so that messages differing only in an index or
// length fall in one class.
func AbstractMsg(s string) string {
	if len(s) > 160 {
		s = s[:160]
	}
	return numRe.ReplaceAllString(s, "N")
}
