#!/usr/bin/env python3
"""Regenerates section 1.7 of DESIGN.md (the two ledger tables) from known_findings.json."""
import json, re
L = json.load(open('/verif/known_findings.json'))['findings']
fx = [f for f in L if f['status'] == 'fixed']
kn = [f for f in L if f['status'] == 'known']
esc = lambda s: s.replace('|', '\\|').replace('\n', ' ')
out = ["### 1.7 The ledger as built (known_findings.json)", "",
       "**Repaired in /repo** (%d entries, %d `fix:` commits; the unedited repository suite passes after every one; each entry's witnesses are replayed at the start of every run of that property and reported as `regression` violations if they fail again):" % (len(fx), len({f.get('commit') for f in fx})),
       "", "| id | commit | what failed |", "|---|---|---|"]
for f in fx:
    out.append("| %s | %s | %s |" % (f['id'], f.get('commit', '')[:7], esc(f['what'])))
out += ["", "**Recorded as known findings** (%d entries, %d exact signatures; a different violation of the same property — other input, other clause or other observed shape — is still reported):" % (len(kn), sum(len(f.get('signatures', [])) for f in kn)),
        "", "| id | signatures | what fails and why it is not repaired |", "|---|---|---|"]
for f in kn:
    out.append("| %s | %d | %s |" % (f['id'], len(f.get('signatures', [])), esc(f['what'] + (' (' + f['note'] + ')' if f.get('note') else ''))))
out.append("")
p = '/verif/DESIGN.md'
s = open(p).read()
s2 = re.sub(r"### 1\.7 The ledger as built.*?(?=\n## 2\. )", lambda m: "\n".join(out), s, flags=re.S)
open(p, 'w').write(s2)
print(len(fx), 'fixed', len(kn), 'known')
