package checks

import (
	"fmt"
	"strings"

	"github.com/grindlemire/go-lucene/pkg/lucene/expr"
	"github.com/grindlemire/go-lucene/verif/core"
	"github.com/grindlemire/go-lucene/verif/enum"
	"github.com/grindlemire/go-lucene/verif/qast"
)

// C11 — a default field scopes bare terms and changes nothing else.
//
// Case: Kind "q"; In = query text; DF = default field name (never occurs in the query).
// Clauses:
//   acceptance : Parse(q, f) accepts  <=>  Parse(q) accepts
//   erase      : erasing every `f:` scoping from the tree with the option gives exactly the tree
//                without it
//   unscoped   : with the option no bare term remains as an operand of AND OR NOT + - ~ ^ or as
//                the whole query
//   rescoped   : nothing inside an explicitly fielded term's value is scoped to f

var c11Fields = []string{"D", "my field", `d"q`, strings.Repeat("n", 70)}

// c11Extras: value groups mixing plain values with patterns, numbers and phrases, and bare terms of
// every kind — where scoping decisions depend on the kind of a term.
func c11Extras() []*qast.Node {
	T := func(v qast.Value) *qast.Node { return qast.Lf(qast.Leaf{Kind: qast.LTerm, Val: v}) }
	G := func(sub *qast.Node) *qast.Node { return qast.Lf(qast.Leaf{Kind: qast.LGroup, Field: "f", Sub: sub}) }
	or := func(a, b *qast.Node) *qast.Node { return qast.Bin(qast.OOr, a, b) }
	return []*qast.Node{
		G(or(T(qast.Wi("x*")), T(qast.W("y")))),
		G(or(T(qast.W("x")), T(qast.Re("/r/")))),
		G(or(or(T(qast.W("x")), T(qast.W("y"))), T(qast.Wi("z?")))),
		G(or(T(qast.Q("a*")), T(qast.I("5")))),
		G(qast.Bin(qast.OAnd, T(qast.I("5")), T(qast.F("1.5")))),
		G(qast.UnA(qast.OFuzzy, "2", T(qast.W("x")))),
		G(qast.Bin(qast.OAnd, T(qast.W("x")), or(T(qast.W("y")), T(qast.W("z"))))),          // f:(x AND (y OR z))
		G(qast.Bin(qast.OOr, T(qast.W("x")), qast.Bin(qast.OAnd, T(qast.W("y")), T(qast.W("z"))))), // f:(x OR y AND z)
		G(qast.Un(qast.ONot, or(T(qast.W("x")), T(qast.W("y"))))),                            // f:(NOT (x OR y))
		G(or(T(qast.W("x")), or(T(qast.W("y")), T(qast.W("z"))))),                             // f:(x OR (y OR z))
		T(qast.I("404")), T(qast.F("1.5")), T(qast.I("-5")), T(qast.Q("a*")), T(qast.Q("/x/")), T(qast.W(`a\*`)), T(qast.Re("/r/")), T(qast.Wi("?")),
	}
}

func init() {
	treeSetsExtra["c11x0"] = c11Extras
	core.Register(&core.Check{
		ID:    "C11",
		Title: "A default field scopes bare terms and changes nothing else",
		Units: func(tier string) []core.Unit {
			n := 4
			if tier == "thorough" {
				n = 5
			}
			var us []core.Unit
			for _, u := range enum.SeqUnits("tok", "full", len(enum.SigmaFull), n, 2) {
				us = append(us, core.Unit{Name: u})
			}
			for _, a := range []string{"unary", "bool"} {
				k := 7
				if tier == "thorough" {
					k = 8
				}
				for _, u := range enum.SeqUnits("tok", a, len(enum.Alphabets[a]), k, 2) {
					us = append(us, core.Unit{Name: u})
				}
			}
			add := func(names []string, w int) {
				for _, x := range names {
					us = append(us, core.Unit{Name: x, Weight: w})
				}
			}
			add(qast.TreeUnits("tree|full|1|df", len(treeSet("full0")), 1), 1)
			add(qast.TreeUnits("tree|c11x|1|df", len(treeSet("c11x0")), 1), 1)
			add([]string{"groups"}, 2)
			// short sequences as comparison value, value group, range bound, operand (frames of C10)
			us = append(us, frameUnits([]string{"bool", "unary"}, 4)...)
			if tier == "thorough" {
				add(qast.TreeUnits("tree|full|2|df", len(treeSet("full1")), 60), 4)
			} else {
				add(qast.TreeUnits("tree|small6|2|df", len(treeSet("small1")), 8), 2)
			}
			return us
		},
		Run: func(w *core.Worker, tier, unit string) {
			if unit == "groups" {
				// a field's value group holding bare and explicitly fielded terms side by side:
				// f:(T), T in TREE({x, y, b:c}, 2) over NOT + - AND OR; alone, negated, in a conjunction
				T := func(v string) *qast.Node { return qast.Lf(qast.Leaf{Kind: qast.LTerm, Val: qast.W(v)}) }
				leaves := []*qast.Node{T("x"), T("y"), qast.Lf(qast.Leaf{Kind: qast.LEq, Field: "b", Val: qast.W("c")})}
				for _, sub := range qast.AllTreesU(leaves, []qast.UForm{{Op: qast.ONot}, {Op: qast.OMust}, {Op: qast.OMustN}}, 2) {
					g := qast.Lf(qast.Leaf{Kind: qast.LGroup, Field: "f", Sub: sub})
					for _, t := range []*qast.Node{g, qast.Un(qast.ONot, g), qast.Bin(qast.OAnd, g, T("z")), qast.Bin(qast.OOr, T("z"), g)} {
						txt := qast.Text(t, nil)
						for _, f := range c11Fields {
							w.Do(core.Case{Kind: "q", In: core.BStr(txt), DF: core.BStr(f)})
						}
					}
				}
				return
			}
			if strings.HasPrefix(unit, "tree|") {
				leaves, sub := treeUnitSets(unit)
				_, eu := stripTreeUnit(unit)
				qast.EnumTreeUnit(eu, leaves, sub, func(t *qast.Node) {
					txt := qast.Text(t, nil)
					for _, f := range c11Fields {
						w.Do(core.Case{Kind: "q", In: core.BStr(txt), DF: core.BStr(f)})
					}
				})
				return
			}
			forEachFlat(unit, func(kind, text string) {
				w.Do(core.Case{Kind: "q", In: core.BStr(text), DF: "D"})
			})
		},
		Eval:   c11Eval,
		Shrink: shrinkTokensKeepDF,
		Rule: "TOK(Σ_full,N) ∪ TOK(Σ_unary,k) ∪ TOK(Σ_bool,k) with default field D, TREE texts and every value group f:(T), T in TREE({x,y,b:c},2), with each of four default-field names (plain, with a space, with a double quote, 70 bytes); " +
			"each parsed with and without the option; non-trivial = accepted with the option; distinct = distinct trees with the option",
		Assumptions: []string{"the default-field name never occurs in the query (the statement's precondition)"},
		Bounds: func(tier string) map[string]any {
			if tier == "thorough" {
				return map[string]any{"N_full": 5, "N_focused": 8, "trees": "T(25,2)"}
			}
			return map[string]any{"N_full": 4, "N_focused": 7, "trees": "T(25,1) ∪ T(6,2)"}
		},
		Deadline: func(tier string) int {
			if tier == "thorough" {
				return 1000
			}
			return 300
		},
	})
}

func shrinkTokensKeepDF(c core.Case) []core.Case {
	var out []core.Case
	for _, d := range shrinkTokens(c) {
		if d.DF == "" {
			continue
		}
		out = append(out, d)
	}
	if c.DF != "D" {
		d := c
		d.DF = "D"
		out = append(out, d)
	}
	return out
}

func isDFCol(v any, f string) bool {
	e, ok := v.(*expr.Expression)
	if !ok || e == nil || e.Op != expr.Literal || e.Right != nil {
		return false
	}
	c, ok := e.Left.(expr.Column)
	return ok && string(c) == f
}

// eraseDF returns a copy of v with every Equals/Like(Column(f), X) replaced by X.
func eraseDF(v any, f string) any {
	switch x := v.(type) {
	case *expr.Expression:
		if x == nil {
			return x
		}
		if (x.Op == expr.Equals || x.Op == expr.Like) && isDFCol(x.Left, f) {
			return eraseDF(x.Right, f)
		}
		c := *x
		c.Left = eraseDF(x.Left, f)
		c.Right = eraseDF(x.Right, f)
		return &c
	case []*expr.Expression:
		out := make([]*expr.Expression, len(x))
		for i, it := range x {
			r, _ := eraseDF(it, f).(*expr.Expression)
			out[i] = r
		}
		return out
	case *expr.RangeBoundary:
		if x == nil {
			return x
		}
		c := *x
		c.Min = eraseDF(x.Min, f)
		c.Max = eraseDF(x.Max, f)
		return &c
	}
	return v
}

func isLeaf(v any) bool {
	e, ok := v.(*expr.Expression)
	return ok && e != nil && (e.Op == expr.Literal || e.Op == expr.Wild || e.Op == expr.Regexp)
}

// scopeWalk looks for bare operands (unscoped) and for f-scoping inside a field's value
// (rescoped). inValue: we are inside the value of an explicitly fielded term.
func scopeWalk(v any, f string, inValue bool, operand bool, out *[]string) {
	switch x := v.(type) {
	case *expr.Expression:
		if x == nil {
			return
		}
		switch x.Op {
		case expr.Literal, expr.Wild, expr.Regexp:
			if operand && !inValue {
				*out = append(*out, "unscoped:"+opName(x.Op))
			}
		case expr.Equals, expr.Like, expr.Greater, expr.Less, expr.GreaterEq, expr.LessEq, expr.In, expr.Range:
			if isDFCol(x.Left, f) {
				if inValue {
					*out = append(*out, "rescoped")
				}
				// value of the default scoping itself: a leaf, fine
				return
			}
			scopeWalk(x.Right, f, true, false, out)
		case expr.And, expr.Or:
			scopeWalk(x.Left, f, inValue, true, out)
			scopeWalk(x.Right, f, inValue, true, out)
		case expr.Not, expr.Must, expr.MustNot, expr.Fuzzy, expr.Boost:
			scopeWalk(x.Left, f, inValue, true, out)
		case expr.List:
			if items, ok := x.Left.([]*expr.Expression); ok {
				for _, it := range items {
					scopeWalk(it, f, inValue, false, out)
				}
			}
		}
	case *expr.RangeBoundary:
		if x != nil {
			scopeWalk(x.Min, f, true, false, out)
			scopeWalk(x.Max, f, true, false, out)
		}
	}
}

func opName(o expr.Operator) string { return o.String() }

func c11Eval(c core.Case) (res core.Result) {
	in, f := string(c.In), string(c.DF)
	p0 := doParse(in, "")
	pf := doParse(in, c.DF)
	if p0.pi != nil || pf.pi != nil {
		res.Tags = append(res.Tags, "skipped_upstream_panic")
		return
	}
	ok0 := p0.err == nil && p0.e != nil
	okf := pf.err == nil && pf.e != nil
	add := func(clause, class, obs, exp string) {
		res.Obs = append(res.Obs, core.Obs{Clause: clause, Class: class, Observed: obs, Expected: exp})
	}
	if ok0 != okf {
		if okf {
			add("acceptance", "accepted-only-with-option", "with the option: "+gostr(pf.e), fmt.Sprintf("rejected as without the option (%v)", p0.err))
		} else {
			add("acceptance", "rejected-only-with-option", fmt.Sprintf("with the option: %v", pf.err), "accepted as without the option: "+gostr(p0.e))
		}
		return
	}
	if !okf {
		return
	}
	res.Nontrivial = true
	res.Hash = treeHash(pf.e)
	var erased *expr.Expression
	var issues []string
	if pi := core.Safe(func() {
		erased, _ = eraseDF(pf.e, f).(*expr.Expression)
		scopeWalk(pf.e, f, false, true, &issues)
	}); pi != nil {
		res.Tags = append(res.Tags, "skipped_upstream_panic")
		return
	}
	seen := map[string]bool{}
	for _, is := range issues {
		if seen[is] {
			continue
		}
		seen[is] = true
		clause := is
		if i := strings.IndexByte(is, ':'); i >= 0 {
			clause = is[:i]
		}
		add(clause, is, gostr(pf.e), "every bare operand scoped to the default field, nothing inside a fielded value scoped")
	}
	if !deepEqual(erased, p0.e) {
		add("erase", "differs-after-erasing", "with option: "+gostr(pf.e), "without option: "+gostr(p0.e))
	}
	return
}
