package qast

import (
	"encoding/json"
	"fmt"
	"strconv"
	"strings"
)

// UForm is one unary constructor (operator + optional numeric argument as typed).
type UForm struct{ Op, Arg string }

// UnaryForms are the seven unary constructors of the tree spaces.
var UnaryForms = []UForm{
	{ONot, ""}, {OMust, ""}, {OMustN, ""}, {OFuzzy, ""}, {OFuzzy, "2"}, {OBoost, ""}, {OBoost, "2"},
}

var BinaryOps = []string{OAnd, OOr}

// LeavesFull is L_full: one leaf per leaf form and value kind of the documented grammar.
func LeavesFull() []*Node {
	return []*Node{
		Lf(Leaf{Kind: LTerm, Val: W("a")}),
		Lf(Leaf{Kind: LTerm, Val: I("5")}),
		Lf(Leaf{Kind: LTerm, Val: Q("q r")}),
		Lf(Leaf{Kind: LTerm, Val: Wi("w*")}),
		Lf(Leaf{Kind: LEq, Field: "f", Val: W("v")}),
		Lf(Leaf{Kind: LEq, Field: "f", Val: I("5")}),
		Lf(Leaf{Kind: LEq, Field: "f", Val: I("-5")}),
		Lf(Leaf{Kind: LEq, Field: "f", Val: F("1.5")}),
		Lf(Leaf{Kind: LEq, Field: "f", Val: Q("q r")}),
		Lf(Leaf{Kind: LEq, Field: "f", Val: Wi("w*")}),
		Lf(Leaf{Kind: LEq, Field: "f", Val: Re("/r/")}),
		Lf(Leaf{Kind: LGt, Field: "f", Val: I("5")}),
		Lf(Leaf{Kind: LGe, Field: "f", Val: I("5")}),
		Lf(Leaf{Kind: LLt, Field: "f", Val: W("v")}),
		Lf(Leaf{Kind: LLe, Field: "f", Val: F("1.5")}),
		Lf(Leaf{Kind: LRange, Field: "f", Lo: I("1"), Hi: I("5"), Incl: true}),
		Lf(Leaf{Kind: LRange, Field: "f", Lo: W("a"), Hi: W("b"), Incl: false}),
		Lf(Leaf{Kind: LRange, Field: "f", Lo: Star, Hi: I("5"), Incl: true}),
		Lf(Leaf{Kind: LRange, Field: "f", Lo: I("1"), Hi: Star, Incl: false}),
		Lf(Leaf{Kind: LList, Field: "f", List: []Value{W("x"), W("y")}}),
		Lf(Leaf{Kind: LList, Field: "f", List: []Value{I("1"), I("2"), I("3")}}),
		Lf(Leaf{Kind: LList, Field: "f", List: []Value{W("x"), W("y"), W("x")}}),
		// a sub-query as the field's value
		Lf(Leaf{Kind: LGroup, Field: "f", Sub: Bin(OAnd, Lf(Leaf{Kind: LTerm, Val: W("x")}), Lf(Leaf{Kind: LTerm, Val: W("y")}))}),
		Lf(Leaf{Kind: LGroup, Field: "f", Sub: Un(ONot, Lf(Leaf{Kind: LTerm, Val: W("x")}))}),
		Lf(Leaf{Kind: LGroup, Field: "f", Sub: Bin(OOr, UnA(OBoost, "2", Lf(Leaf{Kind: LTerm, Val: W("x")})), Lf(Leaf{Kind: LTerm, Val: Wi("y*")}))}),
	}
}

// LeavesSmall returns the first k of a fixed order chosen so that small alphabets still mix a bare
// term, a fielded term and a range.
func LeavesSmall(k int) []*Node {
	all := []*Node{
		Lf(Leaf{Kind: LTerm, Val: W("a")}),
		Lf(Leaf{Kind: LEq, Field: "f", Val: W("v")}),
		Lf(Leaf{Kind: LRange, Field: "f", Lo: I("1"), Hi: I("5"), Incl: true}),
		Lf(Leaf{Kind: LEq, Field: "g", Val: Wi("w*")}),
		Lf(Leaf{Kind: LGe, Field: "f", Val: I("5")}),
		Lf(Leaf{Kind: LList, Field: "f", List: []Value{W("x"), W("y")}}),
	}
	return all[:k]
}

// AllTrees materialises every tree of depth <= d over the leaves (depth 0 = leaves only).
func AllTrees(leaves []*Node, d int) []*Node { return AllTreesU(leaves, UnaryForms, d) }

// AllTreesU is AllTrees with a caller-chosen set of unary constructors.
func AllTreesU(leaves []*Node, unaries []UForm, d int) []*Node {
	cur := append([]*Node{}, leaves...)
	for i := 0; i < d; i++ {
		next := append([]*Node{}, leaves...)
		for _, u := range unaries {
			for _, x := range cur {
				next = append(next, UnA(u.Op, u.Arg, x))
			}
		}
		for _, b := range BinaryOps {
			for _, x := range cur {
				for _, y := range cur {
					next = append(next, Bin(b, x, y))
				}
			}
		}
		cur = next
	}
	return cur
}

// TreeUnits splits the space "trees of depth <= d" (d >= 1) into units by top-level constructor
// and left-child index range. sub is the number of trees of depth <= d-1.
func TreeUnits(prefix string, sub int, chunks int) []string {
	units := []string{prefix + "|leafun"}
	if chunks < 1 {
		chunks = 1
	}
	step := (sub + chunks - 1) / chunks
	for _, b := range BinaryOps {
		for lo := 0; lo < sub; lo += step {
			hi := lo + step
			if hi > sub {
				hi = sub
			}
			units = append(units, fmt.Sprintf("%s|bin|%s|%d|%d", prefix, b, lo, hi))
		}
	}
	return units
}

// EnumTreeUnit enumerates the trees of one unit produced by TreeUnits. sub must be
// AllTrees(leaves, d-1).
func EnumTreeUnit(unit string, leaves, sub []*Node, f func(*Node)) {
	EnumTreeUnitU(unit, leaves, sub, UnaryForms, f)
}

func EnumTreeUnitU(unit string, leaves, sub []*Node, unaries []UForm, f func(*Node)) {
	parts := strings.Split(unit, "|")
	switch parts[1] {
	case "leafun":
		for _, l := range leaves {
			f(l)
		}
		for _, u := range unaries {
			for _, x := range sub {
				f(UnA(u.Op, u.Arg, x))
			}
		}
	case "bin":
		op := parts[2]
		lo, _ := strconv.Atoi(parts[3])
		hi, _ := strconv.Atoi(parts[4])
		for i := lo; i < hi; i++ {
			for _, y := range sub {
				f(Bin(op, sub[i], y))
			}
		}
	default:
		panic("bad tree unit " + unit)
	}
}

// Chains enumerates every string of <= k unary operators over the leaf (CHAIN(k)).
func Chains(leaf *Node, k int, f func(*Node)) {
	var rec func(n *Node, depth int)
	rec = func(n *Node, depth int) {
		f(n)
		if depth == k {
			return
		}
		for _, u := range UnaryForms {
			rec(UnA(u.Op, u.Arg, n), depth+1)
		}
	}
	rec(leaf, 0)
}

// Spines enumerates every binary-only tree with exactly m leaves (all shapes x operator
// assignments x leaf assignments) (SPINE(m) is the union over 1..m).
func Spines(leaves []*Node, m int, f func(*Node)) {
	var build func(m int) []*Node
	memo := map[int][]*Node{}
	build = func(m int) []*Node {
		if v, ok := memo[m]; ok {
			return v
		}
		var out []*Node
		if m == 1 {
			out = append(out, leaves...)
		} else {
			for k := 1; k < m; k++ {
				for _, l := range build(k) {
					for _, r := range build(m - k) {
						for _, b := range BinaryOps {
							out = append(out, Bin(b, l, r))
						}
					}
				}
			}
		}
		memo[m] = out
		return out
	}
	for _, t := range build(m) {
		f(t)
	}
}

// Encode / Decode: trees travel inside cases as JSON.
func Encode(n *Node) string {
	b, err := json.Marshal(n)
	if err != nil {
		panic(err)
	}
	return string(b)
}

func Decode(s string) (*Node, error) {
	var n Node
	if err := json.Unmarshal([]byte(s), &n); err != nil {
		return nil, err
	}
	return &n, nil
}
