package checks

import (
	"fmt"
	"strconv"
	"strings"
	"sync"

	"github.com/grindlemire/go-lucene/verif/core"
	"github.com/grindlemire/go-lucene/verif/enum"
	"github.com/grindlemire/go-lucene/verif/qast"
)

// EDIT(k): every token sequence within k token edits (delete / replace / insert / swap, every
// position, every Σ_full symbol) of the minimal rendering of every tree of a tree set.

var treeSets sync.Map

// treeSetsExtra: further named tree sets registered by individual checks.
var treeSetsExtra = map[string]func() []*qast.Node{}

// treeSet materialises a named tree set once per process.
func treeSet(name string) []*qast.Node {
	if v, ok := treeSets.Load(name); ok {
		return v.([]*qast.Node)
	}
	var ts []*qast.Node
	switch name {
	case "full0":
		ts = qast.LeavesFull()
	case "full1":
		ts = qast.AllTrees(qast.LeavesFull(), 1)
	case "small1":
		ts = qast.AllTrees(qast.LeavesSmall(6), 1)
	case "small2":
		ts = qast.AllTrees(qast.LeavesSmall(6), 2)
	case "three2":
		ts = qast.AllTrees(qast.LeavesSmall(3), 2)
	case "two2":
		ts = qast.AllTrees(qast.LeavesSmall(2), 2)
	default:
		if f, ok := treeSetsExtra[name]; ok {
			ts = f()
		} else {
			panic("unknown tree set " + name)
		}
	}
	treeSets.Store(name, ts)
	return ts
}

func editUnitsFor(k int, set string, chunk int) []core.Unit {
	n := len(treeSet(set))
	var us []core.Unit
	for lo := 0; lo < n; lo += chunk {
		hi := lo + chunk
		if hi > n {
			hi = n
		}
		us = append(us, core.Unit{Name: fmt.Sprintf("edit|%d|%s|%d|%d", k, set, lo, hi), Weight: 2})
	}
	return us
}

func editUnits(tier string) []core.Unit {
	us := editUnitsFor(1, "full1", 50)
	if tier == "thorough" {
		us = append(us, editUnitsFor(1, "small2", 500)...)
		us = append(us, editUnitsFor(2, "full0", 1)...)
	}
	return us
}

func enumEditUnit(unit string, f func(text string)) {
	parts := strings.Split(unit, "|")
	k, _ := strconv.Atoi(parts[1])
	ts := treeSet(parts[2])
	lo, _ := strconv.Atoi(parts[3])
	hi, _ := strconv.Atoi(parts[4])
	for i := lo; i < hi; i++ {
		base := qast.Tokens(ts[i], nil)
		editRec(base, k, f)
	}
}

var editAlphabet = append(append([]string{}, enum.SigmaFull...), "\"\xff\"", "\"a\x00\"")

func editRec(toks []string, k int, f func(text string)) {
	f(strings.Join(toks, " "))
	if k == 0 {
		return
	}
	n := len(toks)
	buf := make([]string, 0, n+1)
	// delete
	for i := 0; i < n; i++ {
		buf = append(append(buf[:0], toks[:i]...), toks[i+1:]...)
		editRec(append([]string{}, buf...), k-1, f)
	}
	// replace (the edit alphabet adds two hostile phrases to Σ_full: invalid UTF-8 and NUL inside quotes)
	for i := 0; i < n; i++ {
		for _, s := range editAlphabet {
			if s == toks[i] {
				continue
			}
			t := append([]string{}, toks...)
			t[i] = s
			editRec(t, k-1, f)
		}
	}
	// insert
	for i := 0; i <= n; i++ {
		for _, s := range editAlphabet {
			t := make([]string, 0, n+1)
			t = append(t, toks[:i]...)
			t = append(t, s)
			t = append(t, toks[i:]...)
			editRec(t, k-1, f)
		}
	}
	// swap adjacent
	for i := 0; i+1 < n; i++ {
		if toks[i] == toks[i+1] {
			continue
		}
		t := append([]string{}, toks...)
		t[i], t[i+1] = t[i+1], t[i]
		editRec(t, k-1, f)
	}
}
