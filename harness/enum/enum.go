// Package enum holds the flat enumeration spaces: token sequences (TOK) and byte strings (BYTES).
// Both are prefix trees explored depth-first; a unit is the subtree under one short prefix.
package enum

import (
	"fmt"
	"strconv"
	"strings"
)

// SigmaFull: every token type of the lexer has a representative, including the lexical-error
// token "!".
var SigmaFull = []string{
	"a", "b", "5", "-5", "1.5", `"q r"`, "w*", "*", "/r/",
	":", "=", ">", "<", "(", ")", "[", "]", "{", "}", "TO", "AND", "OR", "NOT", "+", "-", "~", "^",
	"!",
}

var Alphabets = map[string][]string{
	"full":  SigmaFull,
	"paren": {"(", ")", "a", "NOT", "AND", "+", ":"},
	"range": {"a", "b", ":", "[", "]", "{", "}", "TO", "*", "5"},
	"unary": {"a", ":", "NOT", "+", "-", "~", "^", "2", "(", ")"},
	"bool":  {"a", "b", ":", "AND", "OR", "NOT", "(", ")"},
	"cmp":   {"a", ":", ">", "<", "=", "5", "-", "(", ")", "010"},
	"like":  {"a", ":", "w*", "a?", "/r/", "(", ")", "OR"},
	"juxt":  {"a", "b", ":", "(", ")", "NOT", "OR", "-5"},
	"nf":    {"a", ":", "(", ")", "5", "NOT"},
	// values that look like format verbs of the implementation language, with the operators that print them
	"fmt": {"a", ":", `"%d"`, `\%s`, `/%v/`, "^", "~", "2", "(", ")"},
}

// ByteAlphabets: representatives of every lexer character class / every way to cut a rune.
var ByteAlphabets = map[string][]string{
	"lex":  {"a", "5", " ", "\t", "\"", "'", "/", "\\", "-", ":", "(", "*", ".", "!", "é", "\xff", "٣"},
	"utf8": {"a", "\x00", "\x80", "\xc3", "\xa9", "\xe4", "\xb8", "\xad", "\xf0"},
	"kw":   {"a", "n", "d", "o", "r", "t", "A", "N", "D", " ", ":"},
	// every ASCII punctuation character that is not part of the query syntax (each must stay illegal)
	"punct": {"a", ":", " ", "#", "$", "%", "&", ",", ";", "@", "|", "`", "!"},
	"nl":   {"a", " ", "\r", "\n", "\"", "/", "\\", ":"},
	// escape sequences of bare words next to the characters they protect
	"esc": {"x", `\\`, `\*`, `\?`, "*", "?", `\/`, "/", `\ `, `\"`},
	// symbol runes that turn into an ASCII symbol when truncated to a byte (U+26xx: : ( ) ^ ~ " / [ + - blank = * \), folded from
	// their full-width form, or are white space only to Unicode
	"alias": {"a", " ", ":", "\u263a", "\u2628", "\u2629", "\u265e", "\u267e", "\u2622", "\u262f", "\u265b", "\u262b", "\u262d", "\u2620", "\u263d", "\u262a", "\u265c", "\uff1a", "\uff08", "\uff09", "\u00a0", "\u2003"},
}

// SeqUnits splits "all sequences of length <= n over an alphabet of size k" into units: one unit
// for all sequences shorter than plen, and one per prefix of length plen (covering the prefix
// itself and all its extensions).
func SeqUnits(space, alpha string, k, n, plen int) []string {
	if plen > n {
		plen = n
	}
	units := []string{fmt.Sprintf("%s|%s|%d|short|%d", space, alpha, n, plen)}
	idx := make([]int, plen)
	for {
		parts := make([]string, plen)
		for i, v := range idx {
			parts[i] = strconv.Itoa(v)
		}
		units = append(units, fmt.Sprintf("%s|%s|%d|p|%s", space, alpha, n, strings.Join(parts, ".")))
		i := plen - 1
		for i >= 0 {
			idx[i]++
			if idx[i] < k {
				break
			}
			idx[i] = 0
			i--
		}
		if i < 0 {
			break
		}
	}
	return units
}

// EnumSeqUnit enumerates the index sequences of a unit made by SeqUnits; f receives the sequence
// as alphabet indices (the slice is reused). Returns states visited.
func EnumSeqUnit(unit string, k int, f func(seq []int)) {
	parts := strings.Split(unit, "|")
	n, _ := strconv.Atoi(parts[2])
	switch parts[3] {
	case "short":
		plen, _ := strconv.Atoi(parts[4])
		seq := make([]int, 0, n)
		var rec func()
		rec = func() {
			f(seq)
			if len(seq) >= plen-1 {
				return
			}
			for i := 0; i < k; i++ {
				seq = append(seq, i)
				rec()
				seq = seq[:len(seq)-1]
			}
		}
		if plen > 0 {
			rec()
		}
	case "p":
		seq := make([]int, 0, n)
		if parts[4] != "" {
			for _, p := range strings.Split(parts[4], ".") {
				v, _ := strconv.Atoi(p)
				seq = append(seq, v)
			}
		}
		var rec func()
		rec = func() {
			f(seq)
			if len(seq) >= n {
				return
			}
			for i := 0; i < k; i++ {
				seq = append(seq, i)
				rec()
				seq = seq[:len(seq)-1]
			}
		}
		rec()
	default:
		panic("bad seq unit " + unit)
	}
}

// UnitAlphabet returns the alphabet named in a unit string.
func UnitAlphabet(unit string) []string {
	parts := strings.Split(unit, "|")
	switch parts[0] {
	case "tok":
		return Alphabets[parts[1]]
	case "bytes", "jbytes":
		return ByteAlphabets[parts[1]]
	}
	return nil
}

// Join renders an index sequence over alpha with sep between symbols.
func Join(alpha []string, seq []int, sep string) string {
	var sb strings.Builder
	for i, s := range seq {
		if i > 0 {
			sb.WriteString(sep)
		}
		sb.WriteString(alpha[s])
	}
	return sb.String()
}
