// vcheck is the harness binary: coordinator, worker and replayer in one executable.
//
//	vcheck run <ID> <quick|thorough>     coordinator (spawns workers of itself)
//	vcheck worker <ID> <tier>            worker: unit names on stdin, results on stdout
//	vcheck replay <file|->               evaluate one recorded case without the explorer
//	vcheck list                          registered checks
package main

import (
	"fmt"
	"os"

	_ "github.com/grindlemire/go-lucene/verif/checks"
	"github.com/grindlemire/go-lucene/verif/core"
)

func main() {
	if len(os.Args) < 2 {
		fmt.Fprintln(os.Stderr, "usage: vcheck run|worker|replay|list ...")
		os.Exit(2)
	}
	switch os.Args[1] {
	case "run":
		if len(os.Args) != 4 {
			fmt.Fprintln(os.Stderr, "usage: vcheck run <ID> <quick|thorough>")
			os.Exit(2)
		}
		os.Exit(core.RunCheck(os.Args[2], os.Args[3]))
	case "worker":
		os.Exit(core.WorkerMain(os.Args[2], os.Args[3]))
	case "replay":
		os.Exit(core.ReplayMain(os.Args[2]))
	case "list":
		for _, id := range core.IDs() {
			fmt.Println(id, core.Lookup(id).Instr)
		}
	default:
		if f, ok := core.ExtraCommands[os.Args[1]]; ok {
			os.Exit(f(os.Args[2:]))
		}
		fmt.Fprintln(os.Stderr, "unknown command", os.Args[1])
		os.Exit(2)
	}
}
