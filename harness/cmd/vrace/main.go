// vrace is the free-running complement of C14's scheduler exploration: the same operations on
// shared inputs, run by real concurrent goroutines in a binary built with -race. The cooperative
// scheduler's hand-offs are happens-before edges and blind the race detector, so unsynchronised
// accesses are looked for here. It is a complement (the detector sees the schedules that
// happen), not the deciding step. Exit 66 = the race detector reported a race
// (GORACE=halt_on_error=1 exitcode=66), exit 1 = a result differed from its sequential value.
package main

import (
	"encoding/json"
	"fmt"
	"os"
	"reflect"
	"strings"
	"sync"

	lucene "github.com/grindlemire/go-lucene"
	"github.com/grindlemire/go-lucene/pkg/driver"
	"github.com/grindlemire/go-lucene/pkg/lucene/expr"
)

var queries = []string{
	`a:(x OR y) AND NOT b:[1 TO 5] AND c:w*`,
	`+p:>=2 AND -q:"r s" AND u:/v.w/ AND (zz:[* TO 9] OR yy:{k TO m})`,
	`a:b AND c:/d.e/ OR f:[* TO 1.5]`,
	`x y "z w"`,
	`a:1 and b:2 or not c:3 AND d:[x to y] Or e:5`,
}

func ops(q string, shared *expr.Expression) []func() string {
	pd := driver.NewPostgresDriver()
	return []func() string{
		func() string { e, err := lucene.Parse(q); return fmt.Sprintf("%#v|%v", e, err) },
		func() string { e, err := lucene.Parse(q, lucene.WithDefaultField("D")); return fmt.Sprintf("%#v|%v", e, err) },
		func() string { e, err := lucene.Parse(q, lucene.WithDefaultField("E")); return fmt.Sprintf("%#v|%v", e, err) },
		func() string { s, err := lucene.ToPostgres(q); return fmt.Sprintf("%q|%v", s, err) },
		func() string { s, p, err := lucene.ToParameterizedPostgres(q); return fmt.Sprintf("%q|%#v|%v", s, p, err) },
		func() string { s, err := pd.Render(shared); return fmt.Sprintf("%q|%v", s, err) },
		func() string { s, p, err := pd.RenderParam(shared); return fmt.Sprintf("%q|%#v|%v", s, p, err) },
		func() string { return shared.String() },
		func() string { return shared.GoString() },
		func() string { b, err := json.Marshal(shared); return fmt.Sprintf("%s|%v", b, err) },
		func() string {
			b, _ := json.Marshal(shared)
			var d expr.Expression
			err := json.Unmarshal(b, &d)
			return fmt.Sprintf("%#v|%v", &d, err)
		},
		func() string { return fmt.Sprint(expr.Validate(shared)) },
	}
}

func main() {
	reps := 50
	if len(os.Args) > 1 {
		fmt.Sscanf(os.Args[1], "%d", &reps)
	}
	bad := 0
	runs := 0
	for _, q0 := range queries {
		for r := 0; r < reps; r++ {
			// every repetition uses field names the process has never seen, and nothing is rendered
			// before the concurrent phase: first uses overlap (lazily built state, caches)
			q := q0
			if r > 0 {
				for _, f := range []string{"a:", "b:", "c:", "p:", "q:", "u:", "f:"} {
					q = strings.ReplaceAll(q, f, fmt.Sprintf("%s%d:", f[:1], r))
				}
			}
			shared, err := lucene.Parse(q)
			if err != nil {
				fmt.Println("cannot parse", q, err)
				os.Exit(2)
			}
			fs := ops(q, shared)
			var wg sync.WaitGroup
			start := make(chan struct{})
			got := make([]string, 8*len(fs))
			for g := 0; g < 8; g++ {
				for i, f := range fs {
					wg.Add(1)
					go func(slot int, f func() string) {
						defer wg.Done()
						<-start
						got[slot] = f()
					}(g*len(fs)+i, f)
				}
			}
			close(start)
			wg.Wait()
			runs += len(got)
			// sequential reference afterwards
			want := make([]string, len(fs))
			for i, f := range fs {
				want[i] = f()
			}
			for k, s := range got {
				if s != want[k%len(fs)] {
					bad++
					if bad < 5 {
						fmt.Printf("RESULT-DIFFERS query %q op %d: %s != %s\n", q, k%len(fs), s, want[k%len(fs)])
					}
				}
			}
			fresh, _ := lucene.Parse(q)
			if !reflect.DeepEqual(shared, fresh) {
				fmt.Printf("SHARED-EXPRESSION-MODIFIED %q\n", q)
				bad++
			}
		}
	}
	fmt.Printf("RACE-COMPLEMENT runs=%d differing=%d\n", runs, bad)
	if bad > 0 {
		os.Exit(1)
	}
}
